#!/bin/bash
# tools/try_seed.sh <tag> <tier> <PID> [more PIDs...]
# Confirms a seeded change in a scratch worktree of /repo (tests pass with the patch; the demonstration fails
# with it and passes without it) and runs the named checks against that worktree (VERIF_REPO), with evidence and
# replays redirected to /tmp so that /verif/evidence only ever holds runs against /repo itself.
set -u
tag=$1; tier=$2; shift 2
src=/tmp/seed-$tag
[ -f $src/patch.diff ] || src=/verif/seeded/$tag
ver=/tmp/ver-$tag-$$
res=/tmp/seedres-$tag.txt; : > $res
git -C /repo worktree add --detach $ver HEAD -q || exit 9
cd $ver
if ! git apply $src/patch.diff; then echo "PATCH-DOES-NOT-APPLY" | tee -a $res; cd /; git -C /repo worktree remove --force $ver; exit 3; fi
t=$(/venv/bin/python -m pytest -q -p no:cacheprovider --timeout=900 2>&1 | tail -1); echo "tests_with_patch: $t" | tee -a $res
/venv/bin/python $src/demo.py >/tmp/demo-$tag.out 2>&1; echo "demo_with_patch_exit: $?" | tee -a $res
git apply -R $src/patch.diff
/venv/bin/python $src/demo.py >/tmp/demo-$tag.out2 2>&1; echo "demo_without_patch_exit: $?" | tee -a $res
git apply $src/patch.diff
cd /verif
for p in "$@"; do
  out=$(VERIF_REPO=$ver VERIF_EVIDENCE_DIR=/tmp/ev-$tag VERIF_REPLAY_DIR=/tmp/rp-$tag ./check $p --tier $tier 2>&1 | grep -E "^(C[0-9]+ tier|VIOLATION|HARNESS|KNOWN|  )" | cut -c1-400)
  echo "--- check $p $tier:" | tee -a $res; echo "$out" | head -6 | tee -a $res
done
cd /; git -C /repo worktree remove --force $ver; rm -rf /tmp/ev-$tag
