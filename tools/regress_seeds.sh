#!/bin/bash
# tools/regress_seeds.sh [tier] [tags...]   - re-runs each stored seeded change against the checks named in its meta.json
# (caught_by) and prints one line per seed: CAUGHT / MISSED. Scratch worktrees are removed as soon as a seed is done.
cd "$(dirname "$0")/.."
V=$(pwd)
tier=${1:-quick}; shift
tags=${@:-$(ls seeded)}
for tag in $tags; do
  src=$V/seeded/$tag
  ver=/tmp/reg-$tag-$$
  git -C /repo worktree add --detach $ver HEAD -q || { echo "$tag WORKTREE-FAILED"; continue; }
  if ! git -C $ver apply $src/patch.diff 2>/dev/null; then echo "$tag PATCH-DOES-NOT-APPLY"; git -C /repo worktree remove --force $ver; continue; fi
  checks=$(jq -r '.caught_by[]' $src/meta.json | head -1)
  verdict=MISSED
  for p in $checks; do
    out=$(VERIF_REPO=$ver VERIF_EVIDENCE_DIR=/tmp/reg-ev-$$ VERIF_REPLAY_DIR=/tmp/reg-rp-$$ ./check $p --tier $tier 2>&1)
    if echo "$out" | grep -q "^VIOLATION property=$p"; then verdict="CAUGHT by $p"; else verdict="MISSED by $p: $(echo "$out" | grep -E "^(C[0-9]+ tier|HARNESS)" | head -2 | cut -c1-160 | tr '\n' '|')"; fi
  done
  echo "$tag $verdict"
  git -C /repo worktree remove --force $ver
  rm -rf /tmp/reg-ev-$$ /tmp/reg-rp-$$
done
