#!/bin/bash
# tools/run_all.sh [tier] [seed]  - every registered check once, one summary line each
cd /verif
tier=${1:-quick}; seed=${2:-0}
for i in $(seq -w 1 20); do
  p=C$i
  s=$(date +%s)
  out=$(./check $p --tier $tier --seed $seed 2>&1); rc=$?
  e=$(date +%s)
  echo "$p rc=$rc $((e-s))s $(echo "$out" | grep -E "^(C[0-9]+ tier|VIOLATION|HARNESS|KNOWN)" | head -3 | cut -c1-200 | tr '\n' '|')"
done
