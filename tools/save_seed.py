"""tools/save_seed.py <tag> <property> <caught_by(comma list or '-')> <missed_by(comma list or '-')> [note]
Stores a confirmed seeded change under /verif/seeded/<tag>/ (patch.diff, demo.py, meta.json)."""
import json
import shutil
import sys
from pathlib import Path

tag, prop, caught, missed = sys.argv[1:5]
note = sys.argv[5] if len(sys.argv) > 5 else ""
src = Path(f"/tmp/seed-{tag}")
dst = Path(f"/verif/seeded/{tag}")
dst.mkdir(parents=True, exist_ok=True)
for f in ("patch.diff", "demo.py"):
    if (src / f).exists():
        shutil.copy(src / f, dst / f)
agent = {}
if (src / "meta.json").exists():
    try:
        agent = json.loads((src / "meta.json").read_text())
    except Exception:
        agent = {"raw": (src / "meta.json").read_text()[:2000]}
res = {}
for name in (f"/tmp/seedres-{tag}.txt",):
    if Path(name).exists():
        for line in Path(name).read_text().splitlines():
            if ":" in line and line.split(":")[0] in ("tests_with_patch", "demo_with_patch_exit", "demo_without_patch_exit"):
                k, v = line.split(":", 1)
                res[k] = v.strip()
meta = {
    "property": prop,
    "origin": "independent sub-agent given only the property text and a scratch worktree" if not tag.startswith("own") else "written by hand",
    "summary": agent.get("summary", ""),
    "needs_to_manifest": agent.get("needs", ""),
    "files": agent.get("files", []),
    "confirmed": res,
    "how_confirmed": "tools/try_seed.sh: scratch worktree of /repo HEAD; patch applied; unedited suite run; demo run with and without the patch; checks run with VERIF_REPO pointing at the patched worktree",
    "caught_by": [] if caught == "-" else caught.split(","),
    "missed_by": [] if missed == "-" else missed.split(","),
    "note": note,
}
(dst / "meta.json").write_text(json.dumps(meta, indent=1, ensure_ascii=False) + "\n")
print("saved", dst)
