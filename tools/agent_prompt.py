"""Prints the prompt handed to a fresh sub-agent for one property (nothing from /verif but the property text)."""
import json
import sys

pid, tag = sys.argv[1], sys.argv[2]
extra = sys.argv[3] if len(sys.argv) > 3 else ""
p = next(json.loads(l) for l in open("/verif/properties.jsonl") if json.loads(l)["id"] == pid)
wt = f"/tmp/wt-{tag}"
out = f"/tmp/seed-{tag}"
print(f"""You are helping to evaluate a verification harness for the Python library eyecite (freelawproject/eyecite), a
regex/tokenizer-based extractor, resolver and annotator of US legal citations.

Your own scratch git worktree of the repository is at {wt} (a detached checkout; work ONLY there; never touch /repo
or /verif, and do not read anything under /verif). Python is /venv/bin/python; run things from inside {wt} so that
`import eyecite` resolves to {wt}/eyecite (check with: cd {wt} && /venv/bin/python -c "import eyecite; print(eyecite.__file__)").
There is no network.

The library is supposed to satisfy this semantic property:

  TITLE: {p['title']}
  STATEMENT: {p['statement']}
  QUANTIFIED OVER: {p['quantifier']['text']}
  WHY THE EXISTING TESTS CANNOT SETTLE IT: {p['why_tests_cant']}

TASK. Make ONE realistic change to the eyecite source in {wt} (a plausible refactoring slip, optimisation,
off-by-one, reordered statements, wrong default, stale cache, shared mutable state, ... - the kind of regression a
maintainer could introduce and a reviewer could miss) that BREAKS this property, while
  (1) the package still imports, and
  (2) the existing test suite still passes, unedited:
        cd {wt} && /venv/bin/python -m pytest -q -p no:cacheprovider --timeout=900
      (50 tests; all must pass with your change applied).
The change must need something SPECIFIC to manifest - an unusual but legitimate input, a multi-step sequence of calls,
a particular ordering/interleaving, a fault or crash at a particular point, or two cooperating sites that each look fine
alone - not something that ordinary use would expose at once. Do not touch the tests. Keep the change small (typically
1-15 lines). {extra}

DELIVERABLES, all under {out}/ (create the directory):
  - patch.diff : `git -C {wt} diff` of your change (must apply to the worktree's HEAD with `git apply`).
  - demo.py    : a small self-contained program (run as: cd {wt} && /venv/bin/python {out}/demo.py) that exits non-zero
                 (assertion failure) WITH your change and exits 0 WITHOUT it. It must demonstrate a violation of the
                 property as stated above, using only eyecite's public behaviour.
  - meta.json  : {{"property": "{pid}", "summary": "...what was changed...", "needs": "...what is needed for it to manifest...",
                 "files": [...]}}
Before finishing, verify all of it yourself: tests pass with the change; demo fails with the change; `git -C {wt} stash`
then demo passes; `git -C {wt} stash pop`. Leave the worktree WITH the change applied. In your final answer give a
3-line summary (what you changed, what input/sequence exposes it, confirmation of the three checks).""")
