"""tools/seed_table.py <wave-letter>  - prints the DESIGN.md table rows for one wave of seeded changes."""
import json
import sys
from pathlib import Path

w = sys.argv[1]
print("| seed | property | change | caught by | history |")
print("|---|---|---|---|---|")
for d in sorted(Path("/verif/seeded").glob(f"C??{w}")):
    m = json.loads((d / "meta.json").read_text())
    summ = " ".join(m.get("summary", "").split())[:170].replace("|", "/")
    print(f"| {d.name} | {m['property']} | {summ} | {', '.join(m.get('caught_by', []))} | {m.get('note', '').replace('|', '/')} |")
