"""Shared scaffolding for checks that explore document spaces with get_citations().

A check supplies: parts (name -> spec) and an `evaluate(case, text, cits)` oracle returning
[(label, detail)].  A *case* fully determines one execution:
    {"part", "tok", "text", "markup": bool, "steps": [...], "opts": {...}}
"""

from __future__ import annotations

import itertools

from mc import docspace
from mc.ey import clean_text, get_citations, short_exc, tokenizer
from mc.kernel import Stats, h64

MARKUP_STEPS = ["html", "all_whitespace"]


def extract(case):
    """Run the real extraction for a case. Returns (text_the_offsets_refer_to, citations)."""
    tk = tokenizer(case["tok"])
    if case.get("markup"):
        steps = case.get("steps") or MARKUP_STEPS
        cleaned = clean_text(case["text"], steps)
        cits = get_citations(markup_text=case["text"], clean_steps=steps, tokenizer=tk)
        return cleaned, cits
    return case["text"], get_citations(case["text"], tokenizer=tk, **(case.get("opts") or {}))


def decorate(fragments, decorations):
    """Markup alphabet: every fragment under every decoration (format strings with {})."""
    return [d.format(f) for f in fragments for d in decorations]


def seq_shards(part, alphabet_name, n_alpha, depth, tok, extra=None, prefix_len=None):
    if prefix_len is None:
        prefix_len = 1 if n_alpha**depth < 400_000 else 2
    out = []
    dummy = [None] * n_alpha
    for sh in docspace.shards_for(dummy, depth, prefix_len):
        d = {"part": part, "kind": "seq", "alpha": alphabet_name, "depth": depth, "tok": tok, **sh}
        if extra:
            d.update(extra)
        out.append(d)
    return out


def residue_shards(part, kind, tok, n, extra=None):
    out = []
    for r in range(n):
        d = {"part": part, "kind": kind, "tok": tok, "r": r, "n": n}
        if extra:
            d.update(extra)
        out.append(d)
    return out


def char_mutations(text, chars, max_edits):
    """All strings within <= max_edits single-character edits (delete/replace/insert)."""
    seen = {text}
    frontier = [text]
    yield text
    for _ in range(max_edits):
        nxt = []
        for t in frontier:
            for i in range(len(t) + 1):
                cands = []
                if i < len(t):
                    cands.append(t[:i] + t[i + 1 :])
                    cands.extend(t[:i] + c + t[i + 1 :] for c in chars if c != t[i])
                cands.extend(t[:i] + c + t[i:] for c in chars)
                for c in cands:
                    if c not in seen:
                        seen.add(c)
                        nxt.append(c)
                        yield c
        frontier = nxt


def run_cases(st: Stats, part, cases, evaluate, nontrivial=None, outcome=None):
    """cases: iterable of case dicts (already de-duplicated or not). Executes each once."""
    p = st.part(part)
    seen = set()
    for case in cases:
        st.transitions += 1
        key = h64([case["tok"], case.get("markup", False), case["text"], case.get("opts")])
        if key in seen:
            continue
        seen.add(key)
        st.states.add(key)
        st.evaluations += 1
        p["evaluations"] += 1
        try:
            if case.get("markup") and case.get("steps_seq"):
                # the same markup cleaned in several ways within one execution (state keyed on the markup alone
                # would leak from one call to the next); every call is evaluated
                text, cits = None, []
                for steps in case["steps_seq"]:
                    t_, c_ = extract(dict(case, steps=steps))
                    for lab, det in evaluate(case, t_, c_):
                        st.violation(case, f"{lab}: {det} [steps={steps}] :: {brief(case)}", label=f"{part}-{lab}")
                    text, cits = t_, c_
                st.traces += 1
                nt = bool(cits)
                if nt:
                    st.nontrivial.add(key)
                st.outcomes.add(h64([(type(c).__name__, c.span()) for c in cits]))
                continue
            text, cits = extract(case)
        except Exception as e:  # noqa: BLE001
            res = getattr(evaluate, "on_exception", None)
            if res is not None:
                for lab, det in res(case, e):
                    st.violation(case, f"{lab}: {det} :: {brief(case)}", label=f"{part}-{lab}")
            else:
                p["raised"] = p.get("raised", 0) + 1
                st.extra.setdefault("raised_examples", [])
                if len(st.extra["raised_examples"]) < 3:
                    st.extra["raised_examples"].append(f"{short_exc(e)} on {case['text']!r}")
            continue
        st.traces += 1
        for lab, det in evaluate(case, text, cits):
            st.violation(case, f"{lab}: {det} :: {brief(case)}", label=f"{part}-{lab}")
        nt = nontrivial(case, text, cits) if nontrivial else bool(cits)
        if nt:
            st.nontrivial.add(key)
            if not st.samples:
                st.sample({"part": part, "tokenizer": case["tok"], "text": case["text"], "citations": [type(c).__name__ for c in cits]})
        st.outcomes.add(outcome(case, text, cits) if outcome else h64([(type(c).__name__, c.span()) for c in cits]))
    return st


def brief(case):
    return f"tokenizer={case['tok']} {'markup' if case.get('markup') else 'text'}={case['text']!r}"


def seq_cases(sh, alphabets, sep=""):
    alpha = alphabets[sh["alpha"]]
    for idx, text in docspace.walk(alpha, sh["depth"], sh, sep=sep):
        c = {"part": sh["part"], "tok": sh["tok"], "text": text}
        if sh.get("markup"):
            c["markup"] = True
            c["steps"] = sh.get("steps") or MARKUP_STEPS
            if sh.get("steps_seq"):
                c["steps_seq"] = sh["steps_seq"]
        if sh.get("opts"):
            c["opts"] = sh["opts"]
        yield c


def sliced(it, r, n):
    return itertools.islice(it, r, None, n)
