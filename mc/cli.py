"""CLI: ./check <ID> [--tier quick|thorough] [--seed N] [--replay FILE]"""
import argparse
import json
import os
import sys

from mc import kernel


def main():
    ap = argparse.ArgumentParser()
    ap.add_argument("prop")
    ap.add_argument("--tier", default=os.environ.get("VERIF_TIER", "quick"), choices=["quick", "thorough"])
    ap.add_argument("--seed", type=int, default=int(os.environ.get("VERIF_SEED", "0") or 0))
    ap.add_argument("--replay")
    ap.add_argument("--jobs", type=int, default=None)
    a = ap.parse_args()
    pid = a.prop.upper()
    if a.replay:
        data = json.load(open(a.replay))
        v = kernel.replay_case(pid, data["case"], data.get("shard"))
        for x in v:
            print(x["msg"])
        if v:
            print(f"VIOLATION property={pid} replay={a.replay}")
            return 1
        print(f"replay of {a.replay}: property {pid} holds on this case")
        return 0
    return kernel.run_check(pid, a.tier, a.seed, a.jobs)


if __name__ == "__main__":
    sys.exit(main())
