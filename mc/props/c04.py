"""C04 - extraction, resolution and annotation never raise on any string."""

from __future__ import annotations

import itertools

from mc import docspace
from mc.ey import annotate_citations, get_citations, resolve_citations, short_exc, tokenizer
from mc.kernel import Stats, h64

ID = "C04"
TITLE = "Extraction, resolution and annotation never raise on any string"
TECHNIQUE = (
    "bounded-exhaustive exploration of the full pipeline get_citations -> resolve_citations -> annotate_citations: "
    "all strings <= n over a hostile character alphabet and all fragment sequences <= k over hostile fragments, "
    "x 3 tokenizers x {plain, remove_ambiguous} x 3 span kinds x 3 tag modes; with the default tokenizer also as a markup document"
)
TECHNIQUE += "; " + 'also: every citation head x every sequence of post-citation fragments, every example citation of reporters-db in full / short / id. form with boundary years, texts with > 4,300-digit numbers'
RULE = (
    "chars: every string of length <= n over the 14-character hostile alphabet; frags: every concatenation of <= k "
    "fragments of the hostile fragment alphabet A4, joined with '' and with ' '; post: every citation head x every sequence of <= 2 (quick) / 3 "
    "post-citation fragments (years, courts, nested/unbalanced/empty parentheticals, brackets, pin cites). Each text runs the whole pipeline for "
    "each tokenizer and option. distinct = distinct (tokenizer, text); non-trivial = the text produced >= 1 citation."
)
ASSUMPTIONS = [
    "finite alphabets: strings outside them (other code points, longer interactions) are not covered",
    "annotation is run on the extracted text itself (no source_text) with '<a>'/'</a>' markers",
    "MemoryError/RecursionError from pathological sizes are outside the bound (texts are short)",
]

CHARS = ["1", "U", ".", " ", " ", "§", "_", "(", ")", "\n", "\x00", "٣", "é", "v"]
A4 = [
    "1 U.S. 1",
    " ",
    "Id. at 5.",
    "1 Minn. L. Rev. ___",
    ". ",
    "42 U.S.C. § 1983",
    "42 U.S.C. § 1983",
    "Foo v. Bar, ",
    "1 U.S. at 5",
    "Foo, supra, at 3",
    "1 U.S. ___",
    "99999999999999999999",
    "(",
    ")",
    "[",
    "]",
    "<i>",
    "</i>",
    "§§",
    "a§b",
    "Id. at",
    " ",
    "\x00",
    "٣ U.S. ٣",
    "1 U.S. ٣",
    " (9999)",
    " (0000)",
    "(2100) ",
    " (99999 Cir. 1999)",
    "1 F.2d at ___",
    "Id. at ¶ 10",
    "Id. at *10",
    "Ibid.",
    "supra",
    ",",
    "\n",
    "v.",
    "Mass. Gen. Laws ch. 1, § 2",
    "1 Cal. 4th ___",
    "é",
    " at ",
    "___",
    "5 supra",
    "eyecite",  # get_citations special-cases exactly this text
]
LONG = [
    "1 U.S. " + "1" * 4400,  # more digits than int() converts by default
    "Id. at " + "9" * 4400,
    "9" * 4400 + " U.S. 1",
    "1 U.S. at " + "7" * 4400,
    "Foo, supra, at " + "3" * 4400,
    "1 U.S. 1 (" + "2" * 4400 + ")",
]
LONG_COMPANIONS = ["", "1 U.S. 1", "Id. at 5.", "Foo v. Bar, ", ". ", " ", "Id.", "1 U.S. at 5", "Foo, supra", "1 Minn. L. Rev. ___", "§ 3", " (1999)"]
STRING_TEMPLATES = [
    "12 {r} 345 (1999).",
    "Foo v. Bar (1990) 12 {r} 345, 350 (2010); Id. at 346.",
    "See 12 {r} at 345 (x).",
    "12 {r} ___ (1980). Id. at 5. Foo, supra, at 3.",
    "(2100) 12 {r} 345 [0000]",
]
# post-citation material: every sequence of <= 3 of these after every head (metadata regexes, parenthetical trimming, year parsing)
POST_HEADS = [
    "Adarand, supra",
    "Id.",
    "Foo v. Bar, 1 U.S. 1",
    "Foo v. Bar, 410 U.S. 113, 120",
    "See 2 F.3d 4",
    "Bar, 1 U.S. at 5",
    "Foo, supra, at 3",
    "Id. at 5",
    "Mass. Gen. Laws ch. 1, § 2",
    "1 Minn. L. Rev. 1, 5",
    "Foo v. Bar (1990) 3 Cal. 4th 5",
]
POST = [
    " (1999)", " (2000)", " (2d Cir. 1994)", " (1993 amendments omitted)", " ()", " ()x)", " (", ")", " (x)", " (quoting (y) z)",
    ", 5", ", at 5-6", " [1999]", " (1999", " 1999)", " (99999)", " (n.d.)", ";", ". ", " (West 1999)", " (May 2, 1999)", " (1999-",
    " (Wyo. ", "\n", " (  holding that x)", " ( x )", "  (z)", " (holding that the 1964 Act applies)",
    " (quoting Smith, 2 U.S. at 7)", ", cert. denied, id. at 5", ",\t\t5", "\t\tat 7", "\u00a0\u00a0(1999)",
    ", 5\u20137", " at 8\u20139", ", slip op. at 5", " note 12, at 240", " n. 4, at 7", " (. 1999)", " (*** 1973)", " (  1993)", " [§ 1993]", " (— 1993)",
]


def post_documents(more):
    """Every citation head followed by every sequence of 1..more+1 post-citation fragments."""
    for head in POST_HEADS:
        for k in range(1, more + 2):
            for t in itertools.product(POST, repeat=k):
                yield head + "".join(t)
MODES = ["unchecked", "skip", "wrap"]
# the reference tokenizer differs from the others only in extract_tokens (a loop over all 6.8k patterns, 5-20 ms per text):
# its share of the quick tier is kept small, the thorough tier goes as deep as for the others allows
N = {"quick": {"AC": 4, "HS": 4, "REF": 2}, "thorough": {"AC": 5, "HS": 5, "REF": 4}}
K = {"quick": {"AC": 2, "HS": 2, "REF": 1}, "thorough": {"AC": 3, "HS": 3, "REF": 2}}


def setup(tier, seed):
    if tier != "replay":
        tokenizer("HS")
        tokenizer("REF")


def bounds(tier):
    return {"char_alphabet": [repr(c) for c in CHARS], "max_len": N[tier], "fragment_alphabet": len(A4), "frag_depth": K[tier], "separators": ["", " "], "modes": MODES, "string_templates": STRING_TEMPLATES, "reporter_strings": "all keys of EDITIONS_LOOKUP", "examples": "all example citations of reporters-db (full, short form, year variants)", "post_heads": len(POST_HEADS), "post_fragments": len(POST), "post_depth": 2 if tier == "quick" else 3}


def pipeline(tok, text):
    """Returns ([(label, detail)], n_citations)."""
    out = []
    tk = tokenizer(tok)
    ncit = 0
    kinds = []
    for ra in (False, True):
        stage = "extract"
        try:
            cits = get_citations(text, remove_ambiguous=ra, tokenizer=tk)
            if not isinstance(cits, list):
                out.append(("type-extract", f"get_citations returned {type(cits).__name__}"))
                continue
            ncit = max(ncit, len(cits))
            kinds.append(tuple(type(c).__name__ for c in cits))
            stage = "resolve"
            res = resolve_citations(cits)
            if not hasattr(res, "items"):
                out.append(("type-resolve", f"resolve_citations returned {type(res).__name__}"))
            for fn in ("span", "full_span", "span_with_pincite"):
                for mode in MODES:
                    stage = f"annotate-{mode}"
                    ann = [(getattr(c, fn)(), "<a>", "</a>") for c in cits]
                    s = annotate_citations(text, ann, unbalanced_tags=mode)
                    if not isinstance(s, str):
                        out.append(("type-annotate", f"annotate_citations returned {type(s).__name__}"))
        except Exception as e:  # noqa: BLE001
            out.append((f"raise-{stage}", f"{short_exc(e)} (remove_ambiguous={ra})"))
    if tok == "AC":
        # the same string as a markup document (html cleaning, offset translation, markup-only references)
        for steps in (["html", "all_whitespace"], ["html"]):
            try:
                cits = get_citations(markup_text=text, clean_steps=steps, tokenizer=tk)
                if not isinstance(cits, list):
                    out.append(("type-extract-markup", f"get_citations(markup_text=...) returned {type(cits).__name__}"))
                resolve_citations(cits)
            except Exception as e:  # noqa: BLE001
                out.append(("raise-markup", f"{short_exc(e)} (clean_steps={steps})"))
    return out, ncit, kinds


def replay(case):
    if case["tok"] in ("HS", "REF"):
        tokenizer(case["tok"])
    res, _, _ = pipeline(case["tok"], case["text"])
    return [{"msg": f"{lab}: {det} :: tokenizer={case['tok']} text={case['text']!r}", "label": lab} for lab, det in res]


def shards(tier, seed):
    out = []
    for tok in ("AC", "HS") if tier == "thorough" else ("AC",):
        for r in range(32):
            out.append({"part": "strings-" + tok, "alpha": "STRINGS", "tok": tok, "r": r, "n": 32})
    for tok in ("AC", "HS") if tier == "thorough" else ("AC",):
        for hi in range(len(POST_HEADS)):
            for a in range(len(POST)):
                out.append({"part": "post-" + tok, "alpha": "POST", "tok": tok, "head": hi, "first": a, "more": 1 if tier == "quick" else 2})
    for tok in ("AC", "HS", "REF"):
        for li in range(len(LONG)):
            if tok == "REF" and tier == "quick":
                continue  # ~3 s per text with 6.8k regexes over 4.4k digits: thorough only
            out.append({"part": "long-" + tok, "alpha": "LONG", "tok": tok, "li": li, "nc": 2 if tok == "REF" else len(LONG_COMPANIONS)})
        n = N[tier][tok]
        for sh in docspace.shards_for(CHARS, n, 2):
            out.append({"part": "chars-" + tok, "alpha": "CHARS", "tok": tok, "depth": n, "sep": "", **sh})
        k = K[tier][tok]
        for sep in ("", " "):
            for sh in docspace.shards_for(A4, k, 1):
                out.append({"part": "frags-" + tok, "alpha": "A4", "tok": tok, "depth": k, "sep": sep, **sh})
    return out


def long_texts(sh):
    for L in [LONG[sh["li"]]]:
        for c in LONG_COMPANIONS[: sh["nc"]]:
            for t in {L + c, c + L, c + " " + L, L + ". " + c, c + ". " + L}:
                yield (0, 0), t


def string_texts(sh):
    from mc.ey import T

    for rep in sorted(T.EDITIONS_LOOKUP)[sh["r"] :: sh["n"]]:
        for tmpl in STRING_TEMPLATES:
            yield (0,), tmpl.format(r=rep)
    # every example citation of reporters-db (formats without a volume, with the year inside, ...) in full, then in
    # short form, then id.; and with out-of-range years where the format carries a year
    from mc import examples

    for kind, key, ex in examples.all_examples()[sh["r"] :: sh["n"]]:
        sf = examples.short_form(ex)
        yield (0,), f"Foo v. Bar, {ex} (1999). See {sf or ex}, 7. Id. at 5."
        yield (0,), f"{ex}; {sf or ex} (x). Bar, supra."
        for exy in examples.with_years(ex):
            yield (0,), f"Foo v. Bar, {exy}. Id."


def run_shard(sh):
    st = Stats()
    alpha = CHARS if sh["alpha"] == "CHARS" else A4
    p = st.part(sh["part"])
    tok = sh["tok"]
    seen = set()
    if sh["alpha"] == "LONG":
        sh = dict(sh, depth=2)
        gen = long_texts(sh)
    elif sh["alpha"] == "STRINGS":
        sh = dict(sh, depth=1)
        gen = string_texts(sh)
    elif sh["alpha"] == "POST":
        sh = dict(sh, depth=3)
        head, first = POST_HEADS[sh["head"]], POST[sh["first"]]
        gen = (((0,) * (1 + len(t)), head + first + "".join(t)) for k in range(0, sh["more"] + 1) for t in itertools.product(POST, repeat=k))
    else:
        gen = docspace.walk(alpha, sh["depth"], sh, sep=sh["sep"])
    for idx, text in gen:
        st.transitions += 1
        if text in seen:
            continue
        seen.add(text)
        key = h64(tok + "\0" + text)
        st.states.add(key)
        st.evaluations += 1
        p["evaluations"] += 1
        res, ncit, kinds = pipeline(tok, text)
        st.traces += 1
        case = {"part": sh["part"], "tok": tok, "text": text}
        if ncit:
            st.nontrivial.add(key)
            if not st.samples and len(idx) == sh["depth"]:
                st.sample({"tokenizer": tok, "text": text, "citations": ncit})
        st.outcomes.add(h64([kinds, [r[0] for r in res]]))
        for lab, det in res:
            st.violation(case, f"{lab}: {det} :: tokenizer={tok} text={text!r}", label=f"{lab}-{det.split(':')[0]}")
    return st
