"""C20 - cleaning is composable, idempotent and preserves content."""

from __future__ import annotations

import itertools
import re

from mc.ey import clean_text, short_exc
from mc.kernel import Stats, h64

ID = "C20"
TITLE = "Cleaning is composable, idempotent and preserves content"
TECHNIQUE = (
    "bounded-exhaustive exploration of eyecite.clean: all strings <= n over a whitespace/underscore alphabet for the three "
    "text cleaners, all step lists <= 3, all unknown-step values, and all generated element trees (depth <= 2, <= 3 "
    "siblings) for the html cleaner with the visible text known from the generator"
)
TECHNIQUE += "; " + 'also: unknown step at every position of every list <= 3, steps as tuple / iterator / generator / callable, units repeated up to 4,099 times and texts beyond 64 KiB / 128 KiB, documents without any visible node; a subset again under python -O'
RULE = (
    "strings: all strings of length <= n over {space, tab, LF, CR, '_', 'a', NBSP, VT}; steps: all lists of <= 3 step names over "
    "the three text cleaners on the first 3000 strings; html: all element trees built from the grammar (inline/block/hidden "
    "elements, text nodes incl. blank, padded, entities) with <= 3 top-level siblings; pumped: every unit of <= 3 characters repeated n times "
    "(n in 9..4099) through the cleaner oracles and all 2-step lists, and n identical sibling elements for html. distinct = distinct input; "
    "non-trivial = the cleaner changes the input / the tree contains an element."
)
ASSUMPTIONS = [
    "head/title/link content is not generated: the statement's reading of 'from head elements' is left open (DESIGN section 7)",
    "block elements are not generated inside <p> roots because the HTML parser restructures them",
    "finite alphabets and sizes",
]

A = [" ", "\t", "\n", "_", "a", "\xa0", "\r", "\x0b"]
NMAX = {"quick": 6, "thorough": 7}
PUMP = {"quick": [9, 33, 257], "thorough": [9, 17, 33, 65, 129, 257, 1025, 4099]}
BIG = [65536, 131072]  # sizes at which block-wise processing would switch on: texts a few characters longer than these
STEPS = ["inline_whitespace", "all_whitespace", "underscores"]
BAD = ["nope", "HTML", "", " html", None, 5, "Html", "all_whitespace "]
TEXTS = ["foo", "bar baz", " ", "a &amp; b", "x&lt;y", "\n  qux\n", "&amp;sect; 5", "q=a&amp;copy=1"]
INL = ["i", "b", "span", "a"]
BLK = ["p", "div"]
HID = ["script", "style"]


def bounds(tier):
    return {"alphabet": [repr(c) for c in A], "max_len": NMAX[tier], "step_lists_max": 3, "unknown_steps": [repr(b) for b in BAD], "html_depth": 2 if tier == "quick" else 3, "html_siblings": 3 if tier == "quick" else 2, "pumped_copies": PUMP[tier]}


def check_string(s):
    from eyecite.clean import all_whitespace, inline_whitespace, underscores

    res = []
    for f, name in ((inline_whitespace, "inline_whitespace"), (all_whitespace, "all_whitespace"), (underscores, "underscores")):
        try:
            o = f(s)
            o2 = f(o)
        except Exception as e:  # noqa: BLE001
            res.append((f"{name}-raise", short_exc(e)))
            continue
        if o2 != o:
            res.append((f"{name}-idempotent", f"{s!r} -> {o!r} -> {o2!r}"))
        if name == "inline_whitespace":
            if re.search(r"[ \t]{2,}|\t", o):
                res.append((f"{name}-run", f"{s!r} -> {o!r} still has a space/tab run or a tab"))
            if re.sub(r"[ \t]+", "", s) != re.sub(r"[ \t]+", "", o):
                res.append((f"{name}-content", f"{s!r} -> {o!r} changed other characters"))
            if [bool(x) for x in re.split(r"[^ \t]", s)] != [bool(x) for x in re.split(r"[^ \t]", o)]:
                res.append((f"{name}-content", f"{s!r} -> {o!r} removed or added a whitespace run"))
        elif name == "all_whitespace":
            if re.search(r"\s{2,}", o) or re.search(r"[^\S ]", o):
                res.append((f"{name}-run", f"{s!r} -> {o!r} still has a whitespace run or non-space whitespace"))
            if "".join(s.split()) != "".join(o.split()):
                res.append((f"{name}-content", f"{s!r} -> {o!r} changed other characters"))
            if [bool(x) for x in re.split(r"\S", s)] != [bool(x) for x in re.split(r"\S", o)]:
                res.append((f"{name}-content", f"{s!r} -> {o!r} removed or added a whitespace run"))
        else:
            if "__" in o:
                res.append((f"{name}-run", f"{s!r} -> {o!r} still has an underscore run"))
            if re.sub(r"__+", "", s) != o:
                res.append((f"{name}-content", f"{s!r} -> {o!r}: expected exactly the runs of two or more underscores removed"))
    return res


def _mark(t):
    return t + "|"


def check_steps(s, sl):
    exp = s
    sl = [(_mark if x == "<callable>" else x) for x in sl]
    try:
        for stp in sl:
            exp = clean_text(exp, [stp])
        got = clean_text(s, list(sl))
    except Exception as e:  # noqa: BLE001
        return [("compose-raise", short_exc(e))]
    if got != exp:
        return [("compose", f"clean_text({s!r}, {list(sl)}) = {got!r}, step by step = {exp!r}")]
    # the steps parameter is documented as any Iterable: a tuple and a one-shot iterator must behave like the list
    for kind, arg in (("tuple", tuple(sl)), ("iterator", iter(list(sl))), ("generator", (x for x in list(sl)))):
        try:
            got2 = clean_text(s, arg)
        except Exception as e:  # noqa: BLE001
            return [("compose-iterable-raise", f"steps as {kind}: {short_exc(e)}")]
        if got2 != exp:
            return [("compose-iterable", f"clean_text({s!r}, <{kind} of {list(sl)}>) = {got2!r}, with a list {exp!r}")]
    return []


BAD_TEXTS = ["x", "", "____", "  ", "<p></p>", "a__ b", "<script>x</script>", "\n"]


def check_bad(bad):
    """An unknown step raises ValueError wherever it stands in the list and whatever the text (also when an earlier
    step has already emptied it): all lists of <= 3 steps with the unknown name at each position x 8 texts."""
    res = []
    good = STEPS + ["html"]
    lists = [[bad]]
    for g in good:
        lists += [[g, bad], [bad, g]]
        for g2 in good:
            lists += [[g, g2, bad], [g, bad, g2], [bad, g, g2]]
    for text in BAD_TEXTS:
        for sl in lists:
            try:
                out = clean_text(text, list(sl))
            except ValueError:
                continue
            except Exception as e:  # noqa: BLE001
                res.append(("unknown-step-other-exception", f"clean_text({text!r}, {sl!r}): {short_exc(e)}"))
                continue
            res.append(("unknown-step-accepted", f"clean_text({text!r}, {sl!r}) returned {out!r} instead of raising ValueError"))
    return res[:5]


def dec(t):
    return t.replace("&amp;", "&").replace("&lt;", "<")


def gen(depth):
    for t in TEXTS:
        yield (t, [dec(t)], True)
    if depth == 0:
        return
    subs = list(gen(depth - 1))
    for tag in INL + BLK:
        yield (f"<{tag}></{tag}>", [], False)
        for m, e, _ in subs:
            if tag == "p" and any(f"<{b}>" in m for b in BLK):
                continue
            if tag == "a" and "<a>" in m:
                continue
            yield (f"<{tag}>{m}</{tag}>", e, False)
    for tag in HID:
        for t in ["var x = 1;", "p { color: red }"]:
            yield (f"<{tag}>{t}</{tag}>", [], False)


def html_doc(root, combo):
    m = "".join(x[0] for x in combo)
    exp, prev_text = [], False
    for mk, e, is_text in combo:
        if is_text and prev_text:
            exp[-1] = exp[-1] + e[0]
        else:
            exp.extend(e)
        prev_text = is_text
    return f"<{root}>{m}</{root}>", " ".join(x for x in exp if x.strip())


def check_html(doc, want):
    from eyecite.clean import html

    try:
        out = html(doc)
    except Exception as e:  # noqa: BLE001
        return [("html-raise", short_exc(e))]
    res = []
    if out != want:
        res.append(("html-visible-text", f"html({doc!r}) = {out!r}, visible text nodes are {want!r}"))
    try:
        if clean_text(doc, ["html", "all_whitespace"]) != re.sub(r"\s+", " ", want):
            res.append(("html-compose", f"clean_text({doc!r}, ['html','all_whitespace']) differs from all_whitespace(visible text)"))
    except Exception as e:  # noqa: BLE001
        res.append(("html-compose-raise", short_exc(e)))
    return res


# documents without any visible text node (the parser sees no element at all in the first five) and comments next to text
HTML_EDGE = [
    ("", ""), (" ", ""), ("\n\t ", ""), ("<!-- c -->", ""), (" <!-- c --> ", ""), ("<div><!-- c --></div>", ""), ("<br>", ""), ("<p></p>", ""),
    ("<script>x</script>", ""), ("<p>x<!-- c -->y</p>", "x y"), ("<p>a</p>b", "a b"), ("a<p>b</p>", "a b"), ("<body><div>a</div></body>b", "a b"),
    ("<p>x</p>&nbsp;", "x \xa0"), ("<p>x</p>\x0cy", "x \x0cy"), ("<div>a</div>b<div>c</div>", "a b c"), ("<!-- c -->x", "x"), ("<p>x</p><!-- c -->", "x"),
]


def replay(case):
    k = case["kind"]
    if k == "string":
        if "s_pumped" in case:
            u, big, shift = case["s_pumped"]
            case = dict(case, s=(u * (big // len(u) + 4))[shift : shift + big + 7])
        res = check_string(case["s"])
    elif k == "steps":
        res = check_steps(case["s"], case["steps"])
    elif k == "bad":
        res = check_bad(case["bad"])
    else:
        res = check_html(case["doc"], case["want"])
    return [{"msg": f"{lab}: {det}", "label": lab} for lab, det in res]


def shards(tier, seed):
    out = [{"part": "bad"}]
    n = NMAX[tier]
    for pre in itertools.product(range(len(A)), repeat=2):
        out.append({"part": "strings", "prefix": list(pre), "n": n})
    out.append({"part": "strings", "prefix": None, "n": 1})
    for r in range(16):
        out.append({"part": "steps", "r": r, "n": 16})
    for r in range(8):
        out.append({"part": "pumped", "r": r, "n": 8, "copies": PUMP[tier], "big2": tier == "thorough"})
    depth, sib = (1, 3) if tier == "quick" else (2, 2)
    for root in ("div", "p"):
        for r in range(24):
            out.append({"part": "html", "root": root, "depth": depth, "sib": sib, "r": r, "n": 24})
    return out


def opt_shards(tier):
    out = [{"part": "bad"}]
    for pre in itertools.product(range(len(A)), repeat=2):
        out.append({"part": "strings", "prefix": list(pre), "n": 5})
    return out


def run_shard(sh):
    st = Stats()
    p = st.part(sh["part"])

    def record(case, key, res, nt, label_prefix=""):
        st.evaluations += 1
        st.traces += 1
        st.transitions += 1
        p["evaluations"] += 1
        st.states.add(key)
        if nt:
            st.nontrivial.add(key)
            if not st.samples:
                st.sample(case)
        st.outcomes.add(h64([r[0] for r in res]) if res else 0)
        for lab, det in res:
            st.violation(case, f"{lab}: {det}", label=lab)

    if sh["part"] == "bad":
        for b in BAD:
            record({"kind": "bad", "bad": b}, h64(repr(b)), check_bad(b), True)
        for doc, want in HTML_EDGE:
            record({"kind": "html", "doc": doc, "want": want}, h64("E" + doc), check_html(doc, want), True)
        return st
    if sh["part"] == "strings":
        if sh["prefix"] is None:
            strs = [""] + A
        else:
            pre = "".join(A[i] for i in sh["prefix"])
            strs = (pre + "".join(t) for k in range(0, sh["n"] - 1) for t in itertools.product(A, repeat=k))
        for s in strs:
            res = check_string(s)
            record({"kind": "string", "s": s}, h64(s), res, bool(re.search(r"\s\s|__|\t", s)))
        return st
    if sh["part"] == "steps":
        strs = [""] + ["".join(t) for k in range(1, 5) for t in itertools.product(A, repeat=k)]
        strs = strs[:3000]
        # step lists over the three named cleaners and a custom callable (the documented alternative to a name)
        lists = [sl for k in range(0, 4) for sl in itertools.product(STEPS + ["<callable>"], repeat=k)]
        for s in strs[sh["r"] :: sh["n"]]:
            for sl in lists:
                res = check_steps(s, sl)
                record({"kind": "steps", "s": s, "steps": list(sl)}, h64([s, sl]), res, len(sl) >= 2)
        return st
    if sh["part"] == "pumped":
        # every unit of <= 3 characters repeated n times (many separate runs: count-limited or size-dependent
        # code paths), through the per-cleaner oracles and through every 2-step list; html: n sibling elements
        units = ["".join(t) for k in range(1, 4) for t in itertools.product(A, repeat=k)]
        lists2 = [sl for sl in itertools.product(STEPS, repeat=2)]
        for u in units[sh["r"] :: sh["n"]]:
            for n in sh["copies"]:
                s = u * n
                record({"kind": "string", "s": s}, h64(s), check_string(s), True)
                if n <= 40:
                    for sl in lists2:
                        record({"kind": "steps", "s": s, "steps": list(sl)}, h64([s, sl]), check_steps(s, sl), True)
        # texts just beyond 64 KiB / 128 KiB, phase-shifted so that every run of the unit crosses the block boundary once
        for u in units[sh["r"] :: sh["n"]]:
            if len(u) < 2 and sh["r"] % 2:
                continue
            for big in BIG if (len(u) >= 2 and sh.get("big2")) else BIG[:1]:
                for shift in range(len(u)):
                    s = (u * (big // len(u) + 4))[shift : shift + big + 7]
                    record({"kind": "string", "s_pumped": [u, big, shift]}, h64(["big", u, big, shift]), check_string(s), True)
        kids = [it for it in gen(1) if "<" in it[0]]
        for it in kids[sh["r"] :: sh["n"]]:
            for n in sh["copies"]:
                if n > 300:
                    continue
                for root in ("div",) if any(f"<{b}>" in it[0] for b in BLK) else ("div", "p"):
                    doc, want = html_doc(root, (it,) * n)
                    record({"kind": "html", "doc": doc, "want": want}, h64(doc), check_html(doc, want), True)
        return st
    items = list(gen(sh["depth"]))
    root = sh["root"]
    if root == "p":
        items = [it for it in items if not any(f"<{b}>" in it[0] for b in BLK)]
    combos = itertools.chain.from_iterable(itertools.product(items, repeat=k) for k in range(1, sh["sib"] + 1))
    for combo in itertools.islice(combos, sh["r"], None, sh["n"]):
        doc, want = html_doc(root, combo)
        res = check_html(doc, want)
        record({"kind": "html", "doc": doc, "want": want}, h64(doc), res, "<" in doc[len(root) + 2 : -len(root) - 3])
    return st
