"""C16 - citation equality identifies the cited document, not its spelling or context."""

from __future__ import annotations

import itertools

from mc import docspace
from mc.ey import M, get_citations
from mc.kernel import Stats, h64

ID = "C16"
TITLE = "Citation equality identifies the cited document, not its spelling or context"
TECHNIQUE = (
    "bounded-exhaustive exploration: full-domain enumeration of every (edition, variation) pair of reporters-db x volumes x "
    "pages through get_citations(); deviation-bounded product of context slots; all ordered pairs and triples inside a "
    "generated pool per edition for the equivalence-relation, hash-consistency and cross-kind laws"
)
TECHNIQUE += "; " + 'also: the negative clause for ambiguous spellings, context-independence of short forms and of dated ambiguous spellings; a subset again under python -O'
RULE = (
    "variations: every edition of REPORTERS with the plain $full_cite shape x every variation that maps unambiguously to it x "
    "volumes {5,12} x pages {10,345}; contexts: 9 context slots (pin cite, year, court, parties, parenthetical, prose before/"
    "after, spelling, nominative parenthetical) with <= 2 deviations for 12 representative editions; pool: per edition "
    "{canonical, variations, other page, other volume, other reporter, short form x2, placeholder page x2, law x2, journal x2, id x2, "
    "unknown x2, copy/deepcopy/pickle copies} all ordered pairs and triples; laws: all ordered pairs of the example citations of "
    "every law and journal source. distinct = distinct text/pair; non-trivial = pair of distinct objects."
)
ASSUMPTIONS = [
    "a variation is 'unambiguous' when the extracted citation has exactly one candidate edition and it is the edition the database maps it to",
    "editions with custom regex shapes are exercised through the pool laws only when 'vol R page' parses",
    "law/journal equality is eyecite's own (the statement fixes only the cross-kind and case-citation laws)",
]

VOLS = ["5", "12"]
PAGES = ["10", "345"]
_ED = {}


def setup(tier, seed):
    from reporters_db import REPORTERS

    eds = []
    sib = {}
    for key in sorted(REPORTERS):
        for src in REPORTERS[key]:
            names = list(src["editions"])
            for n in names:
                sib.setdefault(n, [x for x in names if x != n][:2])
    _ED["siblings"] = sib
    for key in sorted(REPORTERS):
        for src in REPORTERS[key]:
            for ed_name, ed in src["editions"].items():
                regs = ed.get("regexes")
                if regs and "$full_cite" not in regs:
                    continue
                vs = sorted(v for v, t in src["variations"].items() if t == ed_name)
                eds.append((ed_name, vs))
    _ED["eds"] = eds
    from reporters_db import JOURNALS, LAWS

    le = {}
    for db in (LAWS, JOURNALS):
        for key in sorted(db):
            exs = []
            for src in db[key]:
                exs += src.get("examples", [])
            if len(exs) >= 1:
                le[key] = exs
    _ED["law_examples"] = le


def bounds(tier):
    return {"editions_plain_shape": len(_ED.get("eds", [])), "volumes": VOLS, "pages": PAGES, "context_deviation_bound": 2, "context_editions": 12}


def one_case(text, want_text, cls=M.FullCaseCitation):
    cs = [c for c in get_citations(text) if isinstance(c, cls) and c.matched_text() == want_text]
    return cs[0] if len(cs) == 1 else None


def eq3(a, b):
    """(==, hash equal, resources equal)"""
    return (a == b, hash(a) == hash(b), M.Resource(a) == M.Resource(b) and hash(M.Resource(a)) == hash(M.Resource(b)))


NOMINATIVE_PARTIES = ["Thompson", "Holmes", "Chase", "Cooke"]


def check_variation(ed_name, var, vol, page):
    """-> (results, status)"""
    canon = f"{vol} {ed_name} {page}"
    c0 = one_case(canon, canon)
    if c0 is None:
        return [], "canon-not-parsed"
    res = []
    if var is None and vol == VOLS[0] and page == PAGES[0]:
        # parties do not matter - not even a party whose name is a nominative reporter (a token of its own that the
        # citation's token has to displace): the citation after such a name equals the bare one, candidate editions included
        for party in NOMINATIVE_PARTIES:
            after = one_case(f"Smith v. {party}, {canon}", canon)
            if after is None:
                continue
            if eq3(after, c0) != (True, True, True) or sorted(e.short_name for e in after.all_editions) != sorted(e.short_name for e in c0.all_editions):
                res.append(("party-changes-citation", f"{canon!r} after 'Smith v. {party},' : ==,hash,resource = {eq3(after, c0)}, editions {sorted(e.short_name for e in after.all_editions)} vs bare {sorted(e.short_name for e in c0.all_editions)}"))
                break
    cand0 = c0.exact_editions or c0.variation_editions
    norm = c0.corrected_citation()
    if len(set(cand0)) == 1:
        r = one_case(norm, norm)
        if r is None or eq3(r, c0) != (True, True, True):
            res.append(("norm-reparse", f"{canon!r} normalises to {norm!r} which does not re-parse to an equal citation"))
        elif r.corrected_citation() != norm:
            res.append(("norm-fixedpoint", f"{norm!r} normalises again to {r.corrected_citation()!r}"))
    if var is None:
        return res, "ok"
    txt = f"{vol} {var} {page}"
    v = one_case(txt, txt)
    if v is None:
        return res, "var-not-parsed"
    cand = v.exact_editions or v.variation_editions
    if len(set(cand)) != 1:
        # a spelling that the database maps to several differently named editions has, without a year, no normalised
        # reporter other than itself: it must not be identified with the canonical spelling of any one of them
        names = {e.short_name for e in cand}
        if len(names) > 1 and v.edition_guess is None and var != ed_name and len(set(cand0)) == 1 and c0.edition_guess is not None:
            e = eq3(v, c0)
            if e[0] or e[2]:
                res.append(("ambiguous-variation-eq", f"{txt!r} (candidates {sorted(names)}, no year, no guess) compares equal to {canon!r}: ==,hash,resource = {e}"))
            v2 = one_case("See " + txt + ".", txt)
            if v2 is not None and eq3(v, v2) != (True, True, True):
                res.append(("ambiguous-variation-self", f"two extractions of {txt!r} are not equal: {eq3(v, v2)}"))
        return res, "var-ambiguous"
    if cand[0].short_name != ed_name:
        return res, "var-shadowed"
    if len(set(cand0)) != 1 or cand0[0].short_name != ed_name:
        return res, "canon-ambiguous"
    e = eq3(v, c0)
    if e != (True, True, True):
        res.append(("variation-neq", f"{txt!r} vs {canon!r}: ==,hash,resource = {e}; corrected reporters {v.corrected_reporter()!r} / {c0.corrected_reporter()!r}"))
    # surrounding text does not matter: the short form of the canonical spelling reads the same on its own and after a
    # citation that uses the variation spelling (an earlier mention must not change which pattern wins later)
    short = f"{vol} {ed_name} at {page}"
    alone = [c for c in get_citations("See " + short + ".") if c.span()[0] == 4]
    after = [c for c in get_citations(f"7 {var} 9. See " + short + ".") if c.matched_text() == (alone[0].matched_text() if alone else None)]
    if len(alone) == 1 and isinstance(alone[0], M.CaseCitation):
        if len(after) != 1 or type(after[0]) is not type(alone[0]) or not (after[0] == alone[0] and hash(after[0]) == hash(alone[0])):
            res.append(("context-changes-reading", f"{short!r} alone is {type(alone[0]).__name__} {dict(alone[0].groups)}; after '7 {var} 9.' it is {[(type(c).__name__, dict(c.groups)) for c in after]}"))
    vn = v.corrected_citation()
    r = one_case(vn, vn)
    if r is None or eq3(r, v) != (True, True, True):
        res.append(("variation-norm-reparse", f"{txt!r} normalises to {vn!r} which does not re-parse to an equal citation"))
    elif r.corrected_citation() != vn:
        res.append(("variation-norm-fixedpoint", f"{vn!r} normalises again to {r.corrected_citation()!r}"))
    return res, "ok"


CTX_SLOTS = [
    ("before", ["", "See ", "As held in ", "But cf. "]),
    ("parties", ["", "Foo v. Bar, ", "In re Smith, ", "United States v. Jones, "]),
    ("pin", ["", ", 12", ", 12-13", ", at 14 n.3"]),
    ("spelling", ["canonical", "variation"]),
    ("paren_year", ["", " (1999)", " (2d Cir. 1999)", " [1985]", " (1803)", " (2015)", " (1650)"]),
    ("parenthetical", ["", " (en banc)", " (quoting (x) y)"]),
    ("after", [".", "; see also 2 F.2d 2.", " and more text", ""]),
]


def unambiguous_variation(ed_name):
    for v in dict(_ED["eds"]).get(ed_name, []):
        t = f"5 {v} 10"
        c = one_case(t, t)
        if c is None:
            continue
        cand = c.exact_editions or c.variation_editions
        if len(set(cand)) == 1 and cand[0].short_name == ed_name:
            return v
    return None


def check_context(ed_name, assign):
    base_text = f"5 {ed_name} 10"
    base = one_case(base_text, base_text)
    if base is None:
        return [], "canon-not-parsed"
    written = ed_name
    if assign["spelling"] == "variation":
        written = unambiguous_variation(ed_name)
        if written is None:
            return [], "no-unambiguous-variation"
    core = f"5 {written} 10"
    text = assign["before"] + assign["parties"] + core + assign["pin"] + assign["paren_year"] + assign["parenthetical"] + assign["after"]
    c = one_case(text, core)
    if c is None:
        return [], "context-not-parsed"
    e = eq3(c, base)
    if e != (True, True, True):
        return [("context-neq", f"{text!r} vs bare {base_text!r}: ==,hash,resource = {e}")], "ok"
    return [], "ok"


def build_pool(ed_name, variations):
    """-> list of (label, object, doc_id, kind) ; doc_id None = equal only to itself."""
    other = "F.2d" if ed_name != "F.2d" else "U.S."
    items = []

    def add(label, text, want, cls, doc, kind):
        c = one_case(text, want, cls)
        if c is not None:
            items.append((label, c, doc, kind))

    core = f"5 {ed_name} 10"
    add("canonical", core, core, M.FullCaseCitation, ("case", ed_name, "5", "10"), "full")
    add("canonical-ctx", f"Foo v. Bar, {core}, 12 (1999) (en banc).", core, M.FullCaseCitation, ("case", ed_name, "5", "10"), "full")
    for v in variations:
        t = f"5 {v} 10"
        c = one_case(t, t)
        if c is None:
            continue
        cand = c.exact_editions or c.variation_editions
        if len(set(cand)) == 1 and cand[0].short_name == ed_name:
            items.append((f"variation:{v}", c, ("case", ed_name, "5", "10"), "full"))
    add("other-page", f"5 {ed_name} 11", f"5 {ed_name} 11", M.FullCaseCitation, ("case", ed_name, "5", "11"), "full")
    add("other-volume", f"6 {ed_name} 10", f"6 {ed_name} 10", M.FullCaseCitation, ("case", ed_name, "6", "10"), "full")
    add("other-reporter", f"5 {other} 10", f"5 {other} 10", M.FullCaseCitation, ("case", other, "5", "10"), "full")
    for sname in _ED["siblings"].get(ed_name, []):
        # another series of the same reporter family is a different document
        c = one_case(f"5 {sname} 10", f"5 {sname} 10")
        if c is not None and len(set(c.exact_editions or c.variation_editions)) == 1:
            items.append((f"sibling-series:{sname}", c, ("case", sname, "5", "10"), "full"))
    add("short-1", f"See 5 {ed_name} at 10.", f"5 {ed_name} at 10", M.ShortCaseCitation, ("short", ed_name, "5", "10"), "short")
    add("short-2", f"Bar, 5 {ed_name} at 10 (x).", f"5 {ed_name} at 10", M.ShortCaseCitation, ("short", ed_name, "5", "10"), "short")
    add("placeholder-1", f"5 {ed_name} ___", f"5 {ed_name} ___", M.FullCaseCitation, None, "full")
    add("placeholder-2", f"5 {ed_name} ___", f"5 {ed_name} ___", M.FullCaseCitation, None, "full")
    add("placeholder-1u", f"5 {ed_name} _", f"5 {ed_name} _", M.FullCaseCitation, None, "full")
    add("placeholder-2u", f"5 {ed_name} _", f"5 {ed_name} _", M.FullCaseCitation, None, "full")
    add("law-1", "Mass. Gen. Laws ch. 1, § 2", "Mass. Gen. Laws ch. 1, § 2", M.FullLawCitation, ("law", 1), "law")
    add("law-2", "See Mass. Gen. Laws ch. 1, § 2 (West 1999).", "Mass. Gen. Laws ch. 1, § 2", M.FullLawCitation, ("law", 1), "law")
    add("journal-1", "5 Minn. L. Rev. 10", "5 Minn. L. Rev. 10", M.FullJournalCitation, ("journal", 1), "journal")
    add("journal-2", "See 5 Minn. L. Rev. 10, 12 (1999).", "5 Minn. L. Rev. 10", M.FullJournalCitation, ("journal", 1), "journal")
    # copies: a copy of a value-hashed citation is equal to it; a copy of an identity-hashed one is another
    # citation object and must not be (the originals are hashed first, as any earlier comparison would)
    import copy
    import pickle

    for label, obj, doc, kind in list(items):
        if label in ("canonical", "placeholder-1", "short-1"):
            hash(obj)
            for how, cp in (("copy", copy.copy(obj)), ("deepcopy", copy.deepcopy(obj)), ("pickle", pickle.loads(pickle.dumps(obj)))):
                items.append((f"{label}-{how}", cp, doc, kind))
    for n in (1, 2):
        c = [x for x in get_citations("Id. at 5.") if isinstance(x, M.IdCitation)]
        items.append((f"id-{n}", c[0], None, "id"))
        c = [x for x in get_citations("§ 5") if isinstance(x, M.UnknownCitation)]
        items.append((f"unknown-{n}", c[0], None, "unknown"))
    return items


def check_pool(ed_name, variations):
    items = build_pool(ed_name, variations)
    res = []
    n = len(items)
    eqm = [[False] * n for _ in range(n)]
    for i, j in itertools.product(range(n), repeat=2):
        la, a, da, ka = items[i]
        lb, b, db, kb = items[j]
        try:
            e = a == b
            hh = hash(a) == hash(b)
        except Exception as ex:  # noqa: BLE001
            res.append(("eq-raise", f"{la} vs {lb}: {type(ex).__name__}"))
            continue
        eqm[i][j] = e
        want = (i == j) if (da is None or db is None) else (da == db)
        # law/journal: only the cross-kind law and the same-text case are fixed by the statement
        if e != want:
            lab = "reflexive" if i == j else ("cross-kind" if ka != kb else ("self-only" if da is None or db is None else "case-eq"))
            res.append((lab, f"[{ed_name}] {la} {a.matched_text()!r} == {lb} {b.matched_text()!r} is {e}, expected {want}"))
        if e and not hh:
            res.append(("hash-consistency", f"[{ed_name}] {la} == {lb} but hashes differ"))
        if isinstance(a, M.FullCitation) and isinstance(b, M.FullCitation):
            re_ = M.Resource(a) == M.Resource(b)
            if re_ != e:
                res.append(("resource-eq", f"[{ed_name}] {la} == {lb} is {e} but Resource equality is {re_}"))
    for i, j in itertools.product(range(n), repeat=2):
        if eqm[i][j] != eqm[j][i]:
            res.append(("symmetric", f"[{ed_name}] {items[i][0]} vs {items[j][0]}"))
    for i, j, k in itertools.product(range(n), repeat=3):
        if eqm[i][j] and eqm[j][k] and not eqm[i][k]:
            res.append(("transitive", f"[{ed_name}] {items[i][0]}, {items[j][0]}, {items[k][0]}"))
    return res, n


def law_pairs(key):
    """All ordered pairs of the example citations of one LAWS/JOURNALS source: equal iff the extracted groups
    and candidate editions are the same."""
    res = []
    cits = []
    for ex in _ED["law_examples"].get(key, []):
        cs = [c for c in get_citations(ex) if isinstance(c, (M.FullLawCitation, M.FullJournalCitation))]
        if len(cs) == 1:
            cits.append((ex, cs[0]))
    for (ea, a), (eb, b) in itertools.product(cits, repeat=2):
        same = type(a) is type(b) and dict(a.groups) == dict(b.groups) and sorted(e.short_name for e in a.all_editions) == sorted(e.short_name for e in b.all_editions)
        e = a == b
        if e != same or (e and hash(a) != hash(b)) or ((M.Resource(a) == M.Resource(b)) != same):
            res.append(("law-eq", f"{ea!r} == {eb!r} is {e} (resource {M.Resource(a) == M.Resource(b)}), groups {dict(a.groups)} vs {dict(b.groups)}"))
    return res, len(cits)


def dated_ambiguous():
    """(written string, year only edition A covers, year only edition B covers) for every spelling that reporters-db maps
    to several differently named editions whose dates allow such a pair of years."""
    from mc import resolver as RS

    RS.db_norm_by_year("U.S.", 1900)  # builds the table
    out = []
    for w, cands in sorted(RS._DB_DATED.items()):
        if len(cands) < 2:
            continue
        only = {}
        for y in range(1700, 2021):
            ok = [n for n, (s, e) in cands.items() if (s is None or s.year <= y) and (e is None or e.year >= y)]
            if len(ok) == 1:
                only.setdefault(ok[0], y)
        if len(only) >= 2:
            (a, ya), (b, yb) = sorted(only.items())[:2]
            out.append((w, ya, yb))
    return out


def check_dated(w, ya, yb):
    """Surrounding text does not matter: the same dated citation, alone and after another case's citation with another
    year in the same sentence, denotes the same document."""
    res = []
    for y_other, y_own in ((ya, yb), (yb, ya)):
        cite = f"2 {w} 5"
        alone = one_case(f"See {cite} ({y_own}).", cite)
        ctx = one_case(f"Smith v. Jones, 1 U.S. 1 ({y_other}), was followed in {cite} ({y_own}).", cite)
        if alone is None or ctx is None:
            continue
        if eq3(alone, ctx) != (True, True, True):
            res.append(("context-changes-edition", f"{cite!r} ({y_own}) alone normalises to {alone.corrected_reporter()!r}; after a citation dated {y_other} in the same sentence to {ctx.corrected_reporter()!r}: ==,hash,resource = {eq3(alone, ctx)}"))
    return res


def replay(case):
    setup("replay", 0)
    if case["kind"] == "dated":
        return [{"msg": f"{lab}: {det}", "label": lab} for lab, det in check_dated(case["w"], case["ya"], case["yb"])]
    k = case["kind"]
    if k == "laws":
        res, _ = law_pairs(case["key"])
        return [{"msg": f"{lab}: {det}", "label": lab} for lab, det in res]
    if k == "variation":
        res, _ = check_variation(case["edition"], case["variation"], case["vol"], case["page"])
    elif k == "context":
        res, _ = check_context(case["edition"], case["assign"])
    else:
        vs = dict(_ED["eds"]).get(case["edition"], [])
        res, _ = check_pool(case["edition"], vs)
    return [{"msg": f"{lab}: {det}", "label": lab} for lab, det in res]


CTX_EDS = ["U.S.", "F.2d", "S. Ct.", "Cal. 4th", "A.2d", "N.E.2d", "So. 2d", "P.3d", "F. Supp. 2d", "Wash. 2d", "N.Y.2d", "L. Ed. 2d"]


def shards(tier, seed):
    out = []
    for r in range(32):
        out.append({"part": "variations", "r": r, "n": 32})
        out.append({"part": "pool", "r": r, "n": 32, "stride": 1 if tier == "thorough" else 1})
    for e in CTX_EDS:
        out.append({"part": "context", "edition": e, "bound": 2 if tier == "quick" else 3})
    for r in range(8):
        out.append({"part": "laws", "r": r, "n": 8})
    for r in range(4):
        out.append({"part": "dated", "r": r, "n": 4})
    return out


def opt_shards(tier):
    return [{"part": "variations", "r": r, "n": 16} for r in range(16)]


def run_shard(sh):
    st = Stats()
    p = st.part(sh["part"])

    def record(case, key, res, nt, status="ok"):
        st.evaluations += 1
        st.traces += 1
        st.transitions += 1
        p["evaluations"] += 1
        p[status] = p.get(status, 0) + 1
        st.states.add(key)
        if nt and status == "ok":
            st.nontrivial.add(key)
            if not st.samples:
                st.sample(case)
        st.outcomes.add(h64([status, [r[0] for r in res]]))
        for lab, det in res:
            st.violation(case, f"{lab}: {det}", label=f"{sh['part']}-{lab}")

    eds = _ED["eds"]
    if sh["part"] == "variations":
        for ed_name, vs in eds[sh["r"] :: sh["n"]]:
            for var in [None] + vs:
                for vol in VOLS:
                    for page in PAGES:
                        res, status = check_variation(ed_name, var, vol, page)
                        case = {"kind": "variation", "edition": ed_name, "variation": var, "vol": vol, "page": page}
                        record(case, h64([ed_name, var, vol, page]), res, var is not None, status)
        return st
    if sh["part"] == "dated":
        for w, ya, yb in dated_ambiguous()[sh["r"] :: sh["n"]]:
            res = check_dated(w, ya, yb)
            record({"kind": "dated", "w": w, "ya": ya, "yb": yb}, h64(["dated", w]), res, True)
        return st
    if sh["part"] == "laws":
        for key in sorted(_ED["law_examples"])[sh["r"] :: sh["n"]]:
            res, n = law_pairs(key)
            record({"kind": "laws", "key": key}, h64(["laws", key]), res, n >= 2)
            st.transitions += n * n
        return st
    if sh["part"] == "pool":
        for ed_name, vs in eds[sh["r"] :: sh["n"]]:
            res, n = check_pool(ed_name, vs)
            case = {"kind": "pool", "edition": ed_name}
            record(case, h64(["pool", ed_name]), res, n > 10)
            st.transitions += n * n
            st.extra["pool_pairs"] = st.extra.get("pool_pairs", 0) + n * n
            st.extra["pool_triples"] = st.extra.get("pool_triples", 0) + n * n * n
        return st
    ed = sh["edition"]
    for assign, nd in docspace.deviations(CTX_SLOTS, sh["bound"]):
        res, status = check_context(ed, assign)
        case = {"kind": "context", "edition": ed, "assign": assign}
        record(case, h64([ed, assign]), res, nd > 0, status)
    return st
