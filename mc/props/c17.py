"""C17 - extracted metadata is text taken from the citation's own extent."""

from __future__ import annotations

from mc import docdriver as dd
from mc import docoracles, docspace
from mc.ey import tokenizer
from mc.kernel import Stats

ID = "C17"
TITLE = "Extracted metadata is text taken from the citation's own extent"
TECHNIQUE = (
    "bounded-exhaustive exploration of get_citations() over all fragment sequences <= depth k of a citation-dense "
    "alphabet (consecutive cites with/without names, parallel cites, leading years, nested parentheticals) and all "
    "<=2 fragment edits of templates; every textual metadata value checked against the citation's extent"
)
TECHNIQUE += "; " + 'also: every filler length around the 300-character window, transform-sensitive fragments, post-citation products; a subset again under python -O'
RULE = (
    "documents = all concatenations of <=k fragments of A2; plus fragment-edit mutations of 4 templates; plus 9 forms whose "
    "name/antecedent or post-citation material is separated from the citation by filler prose of EVERY length in a range "
    "around the 300-character metadata window. "
    "distinct = distinct (tokenizer, text); non-trivial = >=1 returned citation carries >=1 textual metadata value."
)
ASSUMPTIONS = [
    "finite fragment alphabet and depth bound",
    "joint extent of parallel citations = [full-span start, largest full-span end among citations sharing that start]",
]

A2 = docspace.A0 + [
    "(1999) 3 Cal. 4th 5",
    "3 Cal. 4th 5",
    " (2005)",
    ", 2 F.2d 2 (2005)",
    "Something else entirely. ",
    " (overruling (x) (y) z)",
    ", 12 Marsh.(Ky.) 345 (1829)",
    "Smith v. Jones (2001) ",
    "et seq. ",
    " (Deering Supp. 2001)",
    ", at 12 n.3",
    "People v. Doe, ",
]
ALPHABETS = {"A2": A2}
DEPTH = {"quick": {"AC": 3, "HS": 2, "REF": 2, "FE": 1}, "thorough": {"AC": 4, "HS": 3, "REF": 2, "FE": 2}}
TEMPLATES = [
    ["1 U.S. 1", " (1999)", ". ", "Something else entirely. ", "2 F.2d 2", " (2005)"],
    ["Foo v. Bar, ", "1 U.S. 1", ", 12 Marsh.(Ky.) 345 (1829)", ". ", "Id. at 5", " (quoting (x) y)"],
    ["Smith v. Jones (2001) ", "3 Cal. 4th 5", ", ", "2 F.2d 2", "; ", "Roe v Wade ", "394 U. S. 618", ", 5-6", " (2d Cir. 1999)"],
    ["Mass. Gen. Laws ch. 1, § 2", " (West 1999)", " ", "1 Minn. L. Rev. 1", ", 5-6", " (1999)", " (overruling (x) (y) z)"],
    ["Foo v. Bar, ", "1 U.S. 1", ", 5-6", ". ", "See ", "Roe v Wade ", "2 F.2d 2", " (2005)", ". "],
    ["Foo v. Bar, ", "1 U.S. 1", ", ", "2 F.2d 2", ", ", "3 Cal. 4th 5", ". ", "People v. Doe, ", "394 U. S. 618", " (1999)"],
]


FILLER = "alpha beta gamma delta epsilon zeta theta iota kappa lambda omicron sigma upsilon omega "
WINDOW_FORMS = [
    "{f} Lochner, Adarand, supra, at 5.",
    "{f} Lochner, Adarand, 515 U.S., at 241.",
    "{f} Lochner, Nobelman at 332, 113 S.Ct. 2106 (1993).",
    "{f} Lochner v. Adarand, 515 U.S. 200 (1995).",
    "{f} Lochner (1999) 3 Cal. 4th 5.",
    "Foo v. Bar, 1 U.S. 1, 5 (2d Cir. 1999) ({f}) and Smith v. Jones, 2 F.2d 2 (2005).",
    "Id. at 5 ({f}). Smith v. Jones, 2 F.2d 2 (2005).",
    "Mass. Gen. Laws ch. 1, § 2 (West 1999) ({f}) (2005).",
    "Foo v. Bar, 1 U.S. 1, {f}, 2 F.2d 2 (2005).",
]
WINDOW_RANGE = {"quick": (240, 330), "thorough": (150, 460)}


def filler(n):
    return (FILLER * (n // len(FILLER) + 2))[:n]


def setup(tier, seed):
    if tier != "replay":
        tokenizer("HS")
        tokenizer("REF")


def bounds(tier):
    return {"alphabet_A2": len(A2), "depth": DEPTH[tier], "templates": len(TEMPLATES), "window_forms": len(WINDOW_FORMS), "window_filler_lengths": WINDOW_RANGE[tier]}


def evaluate(case, text, cits):
    return docoracles.c17(text, cits)


def nontrivial(case, text, cits):
    for c in cits:
        for f in docoracles.TEXT_FIELDS + ["parenthetical"]:
            if isinstance(getattr(c.metadata, f, None), str):
                return True
    return False


def replay(case):
    if case["tok"] in ("HS", "REF"):
        tokenizer(case["tok"])
    try:
        text, cits = dd.extract(case)
    except Exception:  # noqa: BLE001
        return []
    return [{"msg": f"{lab}: {det} :: {dd.brief(case)}", "label": lab} for lab, det in evaluate(case, text, cits)]


def shards(tier, seed):
    d = DEPTH[tier]
    out = []
    for tok in ("AC", "HS", "REF"):
        out += dd.seq_shards("plain-" + tok, "A2", len(A2), d[tok], tok)
    for ti in range(len(TEMPLATES)):
        out += dd.residue_shards("fragedit-AC", "fe", "AC", 16 if d["FE"] > 1 else 2, {"t": ti, "edits": d["FE"]})
    out += dd.residue_shards("transform-sensitive-AC", "ts", "AC", 16)
    out += dd.residue_shards("post-AC", "post", "AC", 16, {"more": 1 if tier == "quick" else 2})
    lo, hi = WINDOW_RANGE[tier]
    for tok in ("AC", "HS"):
        out += dd.residue_shards("window-" + tok, "win", tok, 8, {"lo": lo, "hi": hi})
    return out


def opt_shards(tier):
    return dd.residue_shards("transform-sensitive-AC", "ts", "AC", 16) + dd.seq_shards("plain-AC", "A2", len(A2), 2, "AC")


def run_shard(sh):
    st = Stats()
    if sh["kind"] == "seq":
        cases = dd.seq_cases(sh, ALPHABETS)
    elif sh["kind"] == "post":
        from mc.props import c04

        cases = ({"part": sh["part"], "tok": sh["tok"], "text": t} for t in dd.sliced(c04.post_documents(sh["more"]), sh["r"], sh["n"]))
    elif sh["kind"] == "ts":
        cases = ({"part": sh["part"], "tok": sh["tok"], "text": t} for t in dd.sliced(docspace.ts_documents(3), sh["r"], sh["n"]))
    elif sh["kind"] == "win":
        gen = (form.format(f=filler(n)) for n in range(sh["lo"], sh["hi"] + 1) for form in WINDOW_FORMS)
        cases = ({"part": sh["part"], "tok": sh["tok"], "text": t} for t in dd.sliced(gen, sh["r"], sh["n"]))
    else:
        gen = ("".join(seq) for seq, _ in docspace.edit_mutations(TEMPLATES[sh["t"]], A2, sh["edits"]))
        cases = ({"part": sh["part"], "tok": sh["tok"], "text": t} for t in dd.sliced(gen, sh["r"], sh["n"]))
    return dd.run_cases(st, sh["part"], cases, evaluate, nontrivial=nontrivial)
