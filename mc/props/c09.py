"""C09 - annotation is purely additive: stripping the inserted strings restores the text."""

from __future__ import annotations

import itertools

from mc import annot
from mc.ey import short_exc
from mc.kernel import Stats, h64

ID = "C09"
TITLE = "Annotation is purely additive: stripping the inserted strings restores the text"
TECHNIQUE = (
    "bounded-exhaustive exploration of annotate_citations(): all (plain, source, span multiset, mode, diff engine) over "
    "tiny alphabets, plus all forced-alignment sources and all small element trees; oracle: deleting the sentinel "
    "strings from the output yields the target text"
)
TECHNIQUE += "; " + 'also: the annotator= hook and one-shot iterators as differential oracles, attribute / upper-case tag families, longer two-letter plain texts for shrinking replace blocks; a subset again under python -O'
RULE = (
    "arbitrary: plain and source = all strings <= n over {x,y,<,' ',>} (source also None), all ordered span tuples of "
    "<= 2 spans (empty, touching, nested, overlapping, duplicate, unsorted; 3 spans for |plain| <= 3 in thorough) x 3 modes "
    "x 2 engines; arbitrary2: every plain text of 5 characters over {x,y} x every source <= 3 over {x,y,#} x single spans and partially overlapping pairs x 2 engines; forced: plain 'wxyz' with <= 2 insertions of tags/whitespace at every gap; trees: all element trees with "
    "<= 2 elements (tags i, b, p and I, em, B) over 4 letters, each also through the annotator= hook with the concatenating function; markers: 6 families of before/after strings with regex/format metacharacters x all forced sources "
    "x all <= 2-span tuples x 3 modes. distinct = distinct (plain, source, spans); non-trivial = >= 1 non-empty span and a "
    "source different from plain, or >= 2 spans."
)
ASSUMPTIONS = [
    "before/after strings occur in no text; besides plain sentinels, marker pairs with backslashes, group references, '$', '&', '%' and braces are used",
    "tiny alphabets: longer texts or other characters are not covered",
]

ALPHA = ["x", "y", "<", " ", ">"]
MODES = ["unchecked", "skip", "wrap"]
NMAX = {"quick": (3, 3), "thorough": (4, 3)}  # (plain, source)
INSERTS = ["<i>", "</i>", "<b>", "</b>", "\n", "\t\t"]


def bounds(tier):
    return {"alphabet": ALPHA, "plain_max": NMAX[tier][0], "source_max": NMAX[tier][1], "spans_per_call": 2, "three_span_sets": tier == "thorough", "modes": MODES, "engines": ["dmp", "difflib"], "forced_inserts": INSERTS}


HOSTILE_MARKS = [
    [("[\\n", "]"), ("{\\n", "}")],  # backslash escapes
    [("[", "\\1]"), ("{", "\\1}")],  # group references
    [("[\\", "]"), ("{\\", "}")],  # trailing backslash
    [("[\\g<1>", "]"), ("{\\g<0>", "}")],
    [("[$1", "]"), ("{&", "}")],
    [("[%s", "]"), ("{{}", "}")],
]


def check(plain, source, ss, mode, dmp, marks=None, with_annotator=False):
    k = len(ss)
    target = plain if not source else source
    try:
        out = annot.annotate(plain, ss, source, mode, dmp, marks)
    except Exception as e:  # noqa: BLE001
        return [(f"raise-{mode}", short_exc(e))]
    if marks is None:
        stripped = annot.strip_sentinels(out, k) if isinstance(out, str) else None
    else:
        stripped = out
        for b, a in marks[:k]:
            stripped = stripped.replace(b, "").replace(a, "")
    if not isinstance(out, str) or stripped != target:
        return [(f"strip-{mode}", f"output {out!r} does not strip to the target {target!r}" + (f" (markers {marks[:k]})" if marks else ""))]
    if with_annotator:
        try:
            out_it = annot.annotate(plain, ss, source, mode, dmp, marks, one_shot=True)
        except Exception as e:  # noqa: BLE001
            return [(f"iterator-raise-{mode}", short_exc(e))]
        if out_it != out:
            return [(f"iterator-differs-{mode}", f"with the annotations passed as a one-shot iterator the output is {out_it!r}, as a list {out!r}")]
        # the documented custom-annotator hook, given the concatenating function the default path uses, must produce the same
        # output, and every piece it is handed must be a piece of that output
        seen = []

        def concat(b, t, a):
            seen.append((b, t, a))
            return b + t + a

        try:
            out2 = annot.annotate(plain, ss, source, mode, dmp, marks, annotator=concat)
        except Exception as e:  # noqa: BLE001
            return [(f"annotator-raise-{mode}", short_exc(e))]
        if out2 != out:
            return [(f"annotator-differs-{mode}", f"with annotator=concatenate the output is {out2!r}, without it {out!r}")]
        for b, t, a in seen:
            if not (isinstance(t, str) and (b + t + a) in out):
                return [(f"annotator-args-{mode}", f"annotator was called with {(b, t, a)!r}, which is not a piece of the output {out!r}")]
    return []


def replay(case):
    marks = [tuple(m) for m in case["marks"]] if case.get("marks") else None
    res = check(case["plain"], case["source"], [tuple(s) for s in case["spans"]], case["mode"], case["dmp"], marks, with_annotator=bool(case.get("annotator")))
    return [{"msg": f"{lab}: {det} :: {case}", "label": lab} for lab, det in res]


def shards(tier, seed):
    pn, sn = NMAX[tier]
    plains = annot.strings(ALPHA, pn)
    out = []
    for i in range(0, len(plains), 3):
        out.append({"part": "arbitrary", "lo": i, "hi": min(i + 3, len(plains)), "pn": pn, "sn": sn, "k3": tier == "thorough"})
    for lo in range(0, 2**5 + 2**6 if tier == "thorough" else 2**5, 4):
        out.append({"part": "arbitrary2", "lo": lo, "hi": lo + 4})
    for plain in ["wxyz", "wwxw"]:
        for r in range(8):
            out.append({"part": "forced", "plain": plain, "r": r, "n": 8, "kmax": 2 if tier == "quick" else 3})
    for r in range(8):
        out.append({"part": "trees", "r": r, "n": 8, "max_el": 2})
        out.append({"part": "trees", "r": r, "n": 8, "max_el": 2, "tags": ["I", "em", "B"]})  # style tags in upper case and <em>
    for mi in range(len(HOSTILE_MARKS)):
        out.append({"part": "markers", "mi": mi})
    return out


def opt_shards(tier):
    return [{"part": "trees", "r": r, "n": 8, "max_el": 2} for r in range(8)] + [{"part": "markers", "mi": 0}]


def run_shard(sh):
    st = Stats()
    p = st.part(sh["part"])

    def run(plain, source, ss, modes, engines):
        key = h64([plain, source, ss])
        st.states.add(key)
        nt = (len(ss) >= 2) or (any(s < e for s, e in ss) and bool(source) and source != plain) or (not ss and bool(source) and source != plain)
        if nt:
            st.nontrivial.add(key)
            if not st.samples:
                st.sample({"plain": plain, "source": source, "spans": [list(s) for s in ss]})
        for mode in modes:
            for dmp in engines:
                st.evaluations += 1
                st.traces += 1
                st.transitions += 1
                p["evaluations"] += 1
                res = check(plain, source, ss, mode, dmp, with_annotator=sh["part"] == "trees")
                st.outcomes.add(h64([r[0] for r in res]) if res else 0)
                for lab, det in res:
                    case = {"plain": plain, "source": source, "spans": [list(s) for s in ss], "mode": mode, "dmp": dmp, "annotator": sh["part"] == "trees"}
                    st.violation(case, f"{lab}: {det} :: plain={plain!r} source={source!r} spans={ss} engine={'dmp' if dmp else 'difflib'}", label=f"{sh['part']}-{lab}")

    if sh["part"] == "markers":
        # before/after strings with characters that are special in regex replacement templates / format strings
        marks = HOSTILE_MARKS[sh["mi"]]
        plain = "wxyz"
        sets = list(annot.span_sets(len(plain), 2, allow_empty=False))
        sources = [None] + [src for src, _ in annot.forced_sources(plain, ["<i>", "</i>", "\n"], 2)]
        for source in sources:
            for ss in sets:
                key = h64([plain, source, ss, sh["mi"]])
                st.states.add(key)
                st.nontrivial.add(key)
                for mode in MODES:
                    st.evaluations += 1
                    st.traces += 1
                    st.transitions += 1
                    p["evaluations"] += 1
                    res = check(plain, source, ss, mode, True, marks)
                    st.outcomes.add(h64([r[0] for r in res]) if res else 0)
                    for lab, det in res:
                        case = {"plain": plain, "source": source, "spans": [list(x) for x in ss], "mode": mode, "dmp": True, "marks": [list(m) for m in marks]}
                        st.violation(case, f"{lab}: {det} :: plain={plain!r} source={source!r} spans={ss}", label=f"markers-{lab}")
        return st
    if sh["part"] == "arbitrary2":
        # plain texts of 5 (thorough: and 6) characters over {x, y} against every source <= 3 over {x, y, #}: replace blocks that
        # shrink by several characters, spans that start inside and end past them; both engines
        plains = ["".join(t) for n in (5, 6) for t in itertools.product("xy", repeat=n)][sh["lo"] : sh["hi"]]
        sources = annot.strings(["x", "y", "#"], 3)[1:]
        for plain in plains:
            sets = list(annot.span_sets(len(plain), 1)) + [(a, b) for a in annot.spans_of(len(plain), False) for b in annot.spans_of(len(plain), False) if a[0] <= b[0] < a[1] < b[1]]
            for source in sources:
                for ss in sets:
                    run(plain, source, ss, ("unchecked", "skip"), (True, False))
        return st
    if sh["part"] == "arbitrary":
        plains = annot.strings(ALPHA, sh["pn"])[sh["lo"] : sh["hi"]]
        sources = [None] + annot.strings(ALPHA, sh["sn"])
        for plain in plains:
            n = len(plain)
            sets = [()] + list(annot.span_sets(n, 2))  # () = no annotation at all
            if sh["k3"] and n <= 3:
                sets += list(itertools.product(annot.spans_of(n), repeat=3))
            for source in sources:
                engines = (True,) if (source is None or source == "" or source == plain) else (True, False)
                for ss in sets:
                    run(plain, source, ss, MODES, engines)
        return st
    if sh["part"] == "forced":
        plain = sh["plain"]
        sets = list(annot.span_sets(len(plain), 2))
        for source, pos in itertools.islice(annot.forced_sources(plain, INSERTS, sh["kmax"]), sh["r"], None, sh["n"]):
            for ss in sets:
                run(plain, source, ss, MODES, (True, False))
        return st
    plain = "wxyz"
    sets = list(annot.span_sets(len(plain), 2))
    seen = set()
    trees = annot.element_trees(len(plain), sh.get("tags") or ["i", "b", "p"], sh["max_el"])
    for tree in itertools.islice(trees, sh["r"], None, sh["n"]):
        source = annot.render_tree(plain, tree)
        if source in seen or annot.wellformed(source) is None:
            continue
        seen.add(source)
        for ss in sets:
            run(plain, source, ss, MODES, (True,))
    return st
