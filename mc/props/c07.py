"""C07 - Resolution never guesses between candidates; id. follows only its predecessor."""
from mc.props import rcommon

ID = "C07"
TITLE = "Resolution never guesses between candidates; id. follows only its predecessor"
TECHNIQUE = (
    "explicit-state model checking of the real resolve_citations: all event sequences <= L over a 55-symbol citation-kind "
    "alphabet + BFS over canonical resolver states to fix-point (canon soundness checked) + extracted lists; oracle: safety against a reference model that computes the candidate documents of every non-full citation from the preceding full citations (attached => unique candidate; id. => predecessor's resource and plausible pin cite)"
)
TECHNIQUE += "; also: long lists (a short head followed by 100-520 filler citations), every shorter prefix and the whole list re-resolved on the same objects, an oracle that normalises reporters from reporters-db (spelling, edition dates) rather than from the code's guess; sequences <= 3 over the core alphabet again under python -O"
RULE = rcommon.rule(ID)
ASSUMPTIONS = rcommon.ASSUMPTIONS
setup = rcommon.setup
bounds = rcommon.bounds
shards = rcommon.shards
opt_shards = rcommon.opt_shards


def run_shard(sh):
    return rcommon.run_shard(sh, ID)


def replay(case):
    return rcommon.replay(case, ID)
