"""C03 - citations come back in document order, unique, non-overlapping; merge with the public filter."""

from __future__ import annotations

import itertools
import re

from mc import docdriver as dd
from mc import docoracles, docspace
from mc.ey import M, tokenizer
from mc.kernel import Stats, h64

ID = "C03"
TITLE = "Citations come back in document order, unique and non-overlapping"
TECHNIQUE = (
    "bounded-exhaustive exploration of get_citations() over fragment sequences <= depth k, plus explicit "
    "enumeration of all merge histories (subset of full cites x resolved-name choice x 1..3 filter passes) "
    "through the real extract_reference_citations / filter_citations"
)
TECHNIQUE += "; " + 'also: the real filter_citations on every layout of a valid result plus added reference citations (narrow seam), remove_ambiguous runs, documents beyond 64 KiB; a subset of shards again under python -O'
RULE = (
    "documents = all concatenations of <=k fragments of A3 (A0 + parallel, short-form parallel, string cites, "
    "names reused as references). merge history = (document, subset S of its full case citations |S|<=2, "
    "resolved-name assignment per member of S, number of filter passes 1..3). distinct = distinct (tokenizer, text) "
    "/ distinct history; the <= 2-fragment documents and the fragment-edit templates also with remove_ambiguous=True; non-trivial = >=2 citations returned / history that added >=1 reference citation. layouts: the real "
    "filter_citations on every layout of a valid result (<= 2 citations on a grid of 6 (quick) / 7 positions, full spans extended "
    "left/right) plus <= 2 added reference citations with arbitrary spans."
)
ASSUMPTIONS = [
    "finite fragment alphabet and depth bound",
    "merge histories follow the documented two-step flow: get_citations, set resolved_case_name(_short), "
    "extract_reference_citations(c, Document(text)), filter_citations(citations + references)",
]

A3 = docspace.A0 + [
    "550 U.S. at 556, ",
    "127 S.Ct. at 1965",
    "Bar at 9, ",
    "Foo at 12",
    "Wade at 3 ",
    "1 U.S. 1, 2 F.2d 2; ",
    "see also ",
    "Thompson at 8",
]
ALPHABETS = {"A3": A3}
FE_EXTRA = ["Bar at ", "Foo at ", "In ", "and "]
DEPTH = {"quick": {"AC": 3, "HS": 2, "REF": 2, "MERGE": 2}, "thorough": {"AC": 4, "HS": 3, "REF": 2, "MERGE": 3}}
MERGE_TEMPLATES = [
    "See, e.g., State v. W1ngler, 135 A. 2d 468 (1957); [State v. Wingler at 175, citing, Minnesota ex rel.]",
    "Foo v. Bar, 1 U.S. 1 (1999). Roe v. Wade, 2 F.2d 2. In Bar at 9, and Wade at 3, Foo at 12; 1 U.S. at 5. Foo at 12",
    "A v. B, 550 U.S. at 556, 127 S.Ct. 1955. Smith v. Jones, 3 Cal. 4th 5, Jones at 7, Jones at 8; Smith at 3",
]


FE_TEMPLATES = [
    ["Foo v. Bar, ", "1 U.S. 1", " (1999)", ". ", "In ", "Bar at 9, ", "and ", "Foo at 12", "; ", "Bar at ", "2 F.2d 2", ". "],
    ["Foo v. Bar, ", "550 U.S. at 556, ", "127 S.Ct. 1955, ", "2 F.2d 2", " (1999)", ". ", "Id. at 5", ", ", "§ 3", "; ", "Foo, supra"],
]
FE_ALPHA = None  # set below


MT_CHARS = {"quick": [" ", ",", ";", "a", "A", "1", "(", ")"], "thorough": [" ", ",", ";", "a", "A", "1", "(", ")", ".", "v", "§", "\n", "é", "-", "[", "]", "&", "'"]}


def setup(tier, seed):
    if tier != "replay":
        tokenizer("HS")
        tokenizer("REF")


def bounds(tier):
    return {"alphabet_A3": len(A3), "depth": DEPTH[tier], "merge_templates": len(MERGE_TEMPLATES), "filter_passes": [1, 2, 3], "max_subset": 2}


def evaluate(case, text, cits):
    return docoracles.c03(text, cits)


def name_choices(text, cit):
    """Resolved-name domain for one full citation: none, a capitalised word occurring later in the
    text, the extracted plaintiff."""
    out = [None]
    later = re.findall(r"\b[A-Z][a-z]{2,}\b", text[cit.span()[1] :])
    if later:
        out.append(later[0])
        if later[-1] != later[0]:
            out.append(later[-1])
    pl = getattr(cit.metadata, "plaintiff", None)
    if pl and pl not in out:
        out.append(pl)
    return out


def merge_histories(text, tok):
    """Yield (history description, executor) for all merge histories of one document."""
    base = dd.get_citations(text, tokenizer=tokenizer(tok))
    fulls = [i for i, c in enumerate(base) if isinstance(c, M.FullCaseCitation)]
    subsets = [()] + [(i,) for i in fulls] + list(itertools.combinations(fulls, 2))
    for S in subsets:
        doms = [name_choices(text, base[i]) for i in S]
        for names in itertools.product(*doms):
            for field in ("resolved_case_name_short", "resolved_case_name"):
                if not S and field != "resolved_case_name_short":
                    continue
                yield {"subset": list(S), "names": list(names), "field": field}


def run_history(text, tok, hist):
    from eyecite.find import extract_reference_citations
    from eyecite.helpers import filter_citations

    out = []
    cits = dd.get_citations(text, tokenizer=tokenizer(tok))
    nonref = [c for c in cits if not isinstance(c, M.ReferenceCitation)]
    doc = M.Document(plain_text=text, markup_text="")
    refs = []
    for i, name in zip(hist["subset"], hist["names"]):
        if i >= len(cits):
            return out, 0
        if name is not None:
            setattr(cits[i].metadata, hist["field"], name)
        refs.extend(extract_reference_citations(cits[i], doc))
    merged = list(cits) + refs
    f1 = filter_citations(list(merged))
    for lab, det in docoracles.c03(text, f1):
        out.append((f"merge-{lab}", det + f" after merging {len(refs)} reference(s)"))
    ids = {id(c) for c in f1}
    for c in nonref:
        if id(c) not in ids:
            out.append(("merge-lost", f"non-reference {type(c).__name__}@{c.span()} {c.matched_text()!r} dropped by the filter"))
    prev = f1
    for n in (2, 3):
        nxt = filter_citations(list(prev))
        if [id(c) for c in nxt] != [id(c) for c in prev]:
            out.append(("merge-idem", f"filter pass {n} changed the list: {[(type(c).__name__, c.span()) for c in prev]} -> {[(type(c).__name__, c.span()) for c in nxt]}"))
            break
        prev = nxt
    return out, len(refs)


# ---- narrow seam: the real filter_citations on every layout of a valid result plus added references -------------
_BASE = {}


def _base():
    if not _BASE:
        cs = dd.get_citations("Foo v. Bar, 1 U.S. 1 (1999). Bar at 9. See 1 U.S. at 5.", tokenizer=tokenizer("AC"))
        for c in cs:
            _BASE[{"FullCaseCitation": "F", "ReferenceCitation": "R", "ShortCaseCitation": "S"}[type(c).__name__]] = c
    return _BASE


def mk_cit(kind, span, full=None):
    import copy

    c = copy.copy(_base()[kind])
    c.token = copy.copy(c.token)
    c.token.start, c.token.end = span
    c.span_start, c.span_end = span
    c.full_span_start, c.full_span_end = full or span
    return c


def layout_results(G):
    """Valid results (<= 2 citations in increasing, disjoint span order; a full citation's full span may extend to the
    left/right, as with case names, parallel citations and parentheticals; the second may be a reference)."""
    spans = [(s, e) for s in range(G + 1) for e in range(s + 1, G + 1)]

    def fulls(sp):
        s, e = sp
        return sorted({(a, b) for a in {s, max(s - 1, 0), 0} for b in {e, min(e + 1, G), G}})

    yield []
    for k1 in "FS":
        for s1 in spans:
            for f1 in fulls(s1) if k1 == "F" else [s1]:
                yield [(k1, s1, f1)]
                for k2 in "FSR":
                    for s2 in spans:
                        if s2[0] < s1[1]:
                            continue
                        for f2 in fulls(s2) if k2 == "F" else [s2]:
                            yield [(k1, s1, f1), (k2, s2, f2)]


def check_layout(R, adds):
    from eyecite.helpers import filter_citations

    objs = [mk_cit(k, tuple(sp), tuple(f)) for k, sp, f in R] + [mk_cit("R", tuple(a)) for a in adds]
    out = []
    f1 = filter_citations(list(objs))
    ids = {id(c) for c in f1}
    inp = {id(c) for c in objs}
    for o, (k, sp, f) in zip(objs, R):
        if k != "R" and id(o) not in ids:
            out.append(("layout-lost", f"non-reference {k}@{tuple(sp)} dropped"))
    if any(id(c) not in inp for c in f1):
        out.append(("layout-invented", "the filter returned an object that was not in its input"))
    sp = [c.span() for c in f1]
    if any(a[1] > b[0] or a >= b for a, b in zip(sp, sp[1:])):
        out.append(("layout-overlap", f"filtered spans {sp} are not increasing and disjoint"))
    f2 = filter_citations(list(f1))
    if [id(c) for c in f2] != [id(c) for c in f1]:
        out.append(("layout-idem", f"second pass changed {sp} to {[c.span() for c in f2]}"))
    return out


def run_layouts(st, sh):
    p = st.part("layouts")
    G = sh["G"]
    spans = [(s, e) for s in range(G + 1) for e in range(s + 1, G + 1)]
    for R in itertools.islice(layout_results(G), sh["r"], None, sh["n"]):
        for nadd in range(1, sh["adds"] + 1):
            for adds in itertools.combinations_with_replacement(spans, nadd):
                st.evaluations += 1
                st.traces += 1
                st.transitions += 2
                p["evaluations"] += 1
                key = h64(["layout", R, adds])
                st.states.add(key)
                res = check_layout(R, adds)
                if R:
                    st.nontrivial.add(key)
                st.outcomes.add(h64([r[0] for r in res]) if res else 0)
                for lab, det in res:
                    st.violation({"part": "layouts", "tok": "AC", "R": [list(map(list, (x[1], x[2]))) + [x[0]] for x in R], "adds": [list(a) for a in adds]}, f"{lab}: {det} :: result layout (kind, span, full span)={R} + references at {adds}", label=lab)


def replay(case):
    if case.get("part") == "layouts":
        R = [(x[2], tuple(x[0]), tuple(x[1])) for x in case["R"]]
        return [{"msg": f"{lab}: {det} :: layout={R} adds={case['adds']}", "label": lab} for lab, det in check_layout(R, [tuple(a) for a in case["adds"]])]
    if case["tok"] in ("HS", "REF"):
        tokenizer(case["tok"])
    try:
        if "hist" in case:
            res, _ = run_history(case["text"], case["tok"], case["hist"])
        else:
            text, cits = dd.extract(case)
            res = evaluate(case, text, cits)
    except Exception:  # noqa: BLE001
        return []
    return [{"msg": f"{lab}: {det} :: {dd.brief(case)} hist={case.get('hist')}", "label": lab} for lab, det in res]


def shards(tier, seed):
    d = DEPTH[tier]
    out = []
    for tok in ("AC", "HS", "REF"):
        out += dd.seq_shards("plain-" + tok, "A3", len(A3), d[tok], tok)
    # the same guarantees with ambiguous citations removed (another path through the end of get_citations)
    out += dd.seq_shards("plain-AC-ra", "A3", len(A3), 2, "AC", extra={"opts": {"remove_ambiguous": True}})
    out += dd.seq_shards("merge-AC", "A3", len(A3), d["MERGE"], "AC", extra={"merge": True}, prefix_len=1)
    out += dd.residue_shards("pumped-AC", "pump", "AC", 16)
    for ti in range(len(FE_TEMPLATES)):
        out += dd.residue_shards("fragedit-AC", "fe", "AC", 4 if tier == "quick" else 16, {"t": ti, "edits": 1})  # two edits of a 12-fragment template x all merge histories did not finish in 100 minutes
    for r in range(32):
        out.append({"part": "layouts", "kind": "layouts", "tok": "AC", "G": 6 if tier == "quick" else 7, "adds": 2, "r": r, "n": 32})
    out += dd.residue_shards("merge-templates", "mt", "AC", 16, {"edits": 1, "chars": "quick" if tier == "quick" else "thorough"})
    return out


def run_merge(st, part, texts, tok):
    p = st.part(part)
    seen = set()
    for text in texts:
        st.transitions += 1
        if text in seen:
            continue
        seen.add(text)
        try:
            hists = list(merge_histories(text, tok))
        except Exception:  # noqa: BLE001
            p["raised"] = p.get("raised", 0) + 1
            continue
        for hist in hists:
            case = {"part": part, "tok": tok, "text": text, "hist": hist}
            key = h64([tok, text, hist])
            st.states.add(key)
            st.evaluations += 1
            p["evaluations"] += 1
            st.transitions += 3
            try:
                res, nref = run_history(text, tok, hist)
            except Exception:  # noqa: BLE001
                p["raised"] = p.get("raised", 0) + 1
                continue
            st.traces += 1
            if nref:
                st.nontrivial.add(key)
                if not st.samples:
                    st.sample(case)
            st.outcomes.add(h64([nref, len(res)]))
            for lab, det in res:
                st.violation(case, f"{lab}: {det} :: tokenizer={tok} text={text!r} history={hist}", label=f"{part}-{lab}")


PUMP_FILLERS = [" hello", "; 2 F.2d 2", " Id. at 5.", " Bar at 9,", ". Foo, supra, at 3", " 1 U.S. at 5;", "\n"]
PUMP_COPIES = [100, 300]


def pumped_cases(sh):
    """A short head (<= 2 fragments) followed by many copies of one filler fragment: long documents whose
    interesting part is short (size-dependent code paths)."""
    alpha = A3
    heads = [""] + list(alpha) + [a + b for a in alpha[:16] for b in alpha[:16]]
    for head in heads[sh["r"] :: sh["n"]]:
        for f in PUMP_FILLERS:
            for n in PUMP_COPIES:
                yield {"part": sh["part"], "tok": sh["tok"], "text": head + f * n}
            if len(head) <= 30 and len(alpha) > 0 and (head == "" or head in alpha):
                # one document beyond 64 KiB per single-fragment head (block-wise / size-switched code paths)
                yield {"part": sh["part"], "tok": sh["tok"], "text": head + f * (66000 // len(f) + 1)}


def opt_shards(tier):
    out = [{"part": "layouts", "kind": "layouts", "tok": "AC", "G": 5, "adds": 2, "r": r, "n": 16} for r in range(16)]
    out += dd.seq_shards("plain-AC", "A3", len(A3), 2, "AC")
    return out


def run_shard(sh):
    st = Stats()
    if sh["kind"] == "layouts":
        run_layouts(st, sh)
        return st
    if sh.get("merge"):
        texts = (c["text"] for c in dd.seq_cases(sh, ALPHABETS))
        run_merge(st, sh["part"], texts, sh["tok"])
        return st
    if sh["kind"] == "mt":
        gen = itertools.chain.from_iterable(
            dd.char_mutations(t, MT_CHARS[sh.get("chars", "quick")], sh["edits"]) for t in MERGE_TEMPLATES
        )
        run_merge(st, sh["part"], dd.sliced(gen, sh["r"], sh["n"]), sh["tok"])
        return st
    if sh["kind"] == "fe":
        gen = ("".join(seq) for seq, _ in docspace.edit_mutations(FE_TEMPLATES[sh["t"]], A3 + FE_EXTRA, sh["edits"]))
        texts = list(dd.sliced(gen, sh["r"], sh["n"]))
        cases = ({"part": sh["part"], "tok": sh["tok"], "text": t} for t in texts)
        dd.run_cases(st, sh["part"], cases, evaluate, nontrivial=lambda c, t, cs: len(cs) >= 2)
        cases_ra = ({"part": sh["part"] + "-ra", "tok": sh["tok"], "text": t, "opts": {"remove_ambiguous": True}} for t in texts)
        dd.run_cases(st, sh["part"] + "-ra", cases_ra, evaluate, nontrivial=lambda c, t, cs: len(cs) >= 2)
        run_merge(st, "fragedit-merge", texts, sh["tok"])
        return st
    if sh["kind"] == "pump":
        return dd.run_cases(st, sh["part"], pumped_cases(sh), evaluate, nontrivial=lambda c, t, cs: len(cs) >= 2)
    return dd.run_cases(st, sh["part"], dd.seq_cases(sh, ALPHABETS), evaluate, nontrivial=lambda c, t, cs: len(cs) >= 2)
