"""C03 - citations come back in document order, unique, non-overlapping; merge with the public filter."""

from __future__ import annotations

import itertools
import re

from mc import docdriver as dd
from mc import docoracles, docspace
from mc.ey import M, tokenizer
from mc.kernel import Stats, h64

ID = "C03"
TITLE = "Citations come back in document order, unique and non-overlapping"
TECHNIQUE = (
    "bounded-exhaustive exploration of get_citations() over fragment sequences <= depth k, plus explicit "
    "enumeration of all merge histories (subset of full cites x resolved-name choice x 1..3 filter passes) "
    "through the real extract_reference_citations / filter_citations"
)
RULE = (
    "documents = all concatenations of <=k fragments of A3 (A0 + parallel, short-form parallel, string cites, "
    "names reused as references). merge history = (document, subset S of its full case citations |S|<=2, "
    "resolved-name assignment per member of S, number of filter passes 1..3). distinct = distinct (tokenizer, text) "
    "/ distinct history; non-trivial = >=2 citations returned / history that added >=1 reference citation."
)
ASSUMPTIONS = [
    "finite fragment alphabet and depth bound",
    "merge histories follow the documented two-step flow: get_citations, set resolved_case_name(_short), "
    "extract_reference_citations(c, Document(text)), filter_citations(citations + references)",
]

A3 = docspace.A0 + [
    "550 U.S. at 556, ",
    "127 S.Ct. at 1965",
    "Bar at 9, ",
    "Foo at 12",
    "Wade at 3 ",
    "1 U.S. 1, 2 F.2d 2; ",
    "see also ",
    "Thompson at 8",
]
ALPHABETS = {"A3": A3}
FE_EXTRA = ["Bar at ", "Foo at ", "In ", "and "]
DEPTH = {"quick": {"AC": 3, "HS": 2, "REF": 2, "MERGE": 2}, "thorough": {"AC": 4, "HS": 3, "REF": 3, "MERGE": 3}}
MERGE_TEMPLATES = [
    "See, e.g., State v. W1ngler, 135 A. 2d 468 (1957); [State v. Wingler at 175, citing, Minnesota ex rel.]",
    "Foo v. Bar, 1 U.S. 1 (1999). Roe v. Wade, 2 F.2d 2. In Bar at 9, and Wade at 3, Foo at 12; 1 U.S. at 5. Foo at 12",
    "A v. B, 550 U.S. at 556, 127 S.Ct. 1955. Smith v. Jones, 3 Cal. 4th 5, Jones at 7, Jones at 8; Smith at 3",
]


FE_TEMPLATES = [
    ["Foo v. Bar, ", "1 U.S. 1", " (1999)", ". ", "In ", "Bar at 9, ", "and ", "Foo at 12", "; ", "Bar at ", "2 F.2d 2", ". "],
    ["Foo v. Bar, ", "550 U.S. at 556, ", "127 S.Ct. 1955, ", "2 F.2d 2", " (1999)", ". ", "Id. at 5", ", ", "§ 3", "; ", "Foo, supra"],
]
FE_ALPHA = None  # set below


MT_CHARS = {"quick": [" ", ",", ";", "a", "A", "1", "(", ")"], "thorough": [" ", ",", ";", "a", "A", "1", "(", ")", ".", "v", "§", "\n", "é", "-", "[", "]", "&", "'"]}


def setup(tier, seed):
    if tier != "replay":
        tokenizer("HS")
        tokenizer("REF")


def bounds(tier):
    return {"alphabet_A3": len(A3), "depth": DEPTH[tier], "merge_templates": len(MERGE_TEMPLATES), "filter_passes": [1, 2, 3], "max_subset": 2}


def evaluate(case, text, cits):
    return docoracles.c03(text, cits)


def name_choices(text, cit):
    """Resolved-name domain for one full citation: none, a capitalised word occurring later in the
    text, the extracted plaintiff."""
    out = [None]
    later = re.findall(r"\b[A-Z][a-z]{2,}\b", text[cit.span()[1] :])
    if later:
        out.append(later[0])
        if later[-1] != later[0]:
            out.append(later[-1])
    pl = getattr(cit.metadata, "plaintiff", None)
    if pl and pl not in out:
        out.append(pl)
    return out


def merge_histories(text, tok):
    """Yield (history description, executor) for all merge histories of one document."""
    base = dd.get_citations(text, tokenizer=tokenizer(tok))
    fulls = [i for i, c in enumerate(base) if isinstance(c, M.FullCaseCitation)]
    subsets = [()] + [(i,) for i in fulls] + list(itertools.combinations(fulls, 2))
    for S in subsets:
        doms = [name_choices(text, base[i]) for i in S]
        for names in itertools.product(*doms):
            for field in ("resolved_case_name_short", "resolved_case_name"):
                if not S and field != "resolved_case_name_short":
                    continue
                yield {"subset": list(S), "names": list(names), "field": field}


def run_history(text, tok, hist):
    from eyecite.find import extract_reference_citations
    from eyecite.helpers import filter_citations

    out = []
    cits = dd.get_citations(text, tokenizer=tokenizer(tok))
    nonref = [c for c in cits if not isinstance(c, M.ReferenceCitation)]
    doc = M.Document(plain_text=text, markup_text="")
    refs = []
    for i, name in zip(hist["subset"], hist["names"]):
        if i >= len(cits):
            return out, 0
        if name is not None:
            setattr(cits[i].metadata, hist["field"], name)
        refs.extend(extract_reference_citations(cits[i], doc))
    merged = list(cits) + refs
    f1 = filter_citations(list(merged))
    for lab, det in docoracles.c03(text, f1):
        out.append((f"merge-{lab}", det + f" after merging {len(refs)} reference(s)"))
    ids = {id(c) for c in f1}
    for c in nonref:
        if id(c) not in ids:
            out.append(("merge-lost", f"non-reference {type(c).__name__}@{c.span()} {c.matched_text()!r} dropped by the filter"))
    prev = f1
    for n in (2, 3):
        nxt = filter_citations(list(prev))
        if [id(c) for c in nxt] != [id(c) for c in prev]:
            out.append(("merge-idem", f"filter pass {n} changed the list: {[(type(c).__name__, c.span()) for c in prev]} -> {[(type(c).__name__, c.span()) for c in nxt]}"))
            break
        prev = nxt
    return out, len(refs)


def replay(case):
    if case["tok"] in ("HS", "REF"):
        tokenizer(case["tok"])
    try:
        if "hist" in case:
            res, _ = run_history(case["text"], case["tok"], case["hist"])
        else:
            text, cits = dd.extract(case)
            res = evaluate(case, text, cits)
    except Exception:  # noqa: BLE001
        return []
    return [{"msg": f"{lab}: {det} :: {dd.brief(case)} hist={case.get('hist')}", "label": lab} for lab, det in res]


def shards(tier, seed):
    d = DEPTH[tier]
    out = []
    for tok in ("AC", "HS", "REF"):
        out += dd.seq_shards("plain-" + tok, "A3", len(A3), d[tok], tok)
    out += dd.seq_shards("merge-AC", "A3", len(A3), d["MERGE"], "AC", extra={"merge": True}, prefix_len=1)
    out += dd.residue_shards("pumped-AC", "pump", "AC", 16)
    for ti in range(len(FE_TEMPLATES)):
        out += dd.residue_shards("fragedit-AC", "fe", "AC", 4 if tier == "quick" else 16, {"t": ti, "edits": 1 if tier == "quick" else 2})
    out += dd.residue_shards("merge-templates", "mt", "AC", 16, {"edits": 1, "chars": "quick" if tier == "quick" else "thorough"})
    return out


def run_merge(st, part, texts, tok):
    p = st.part(part)
    seen = set()
    for text in texts:
        st.transitions += 1
        if text in seen:
            continue
        seen.add(text)
        try:
            hists = list(merge_histories(text, tok))
        except Exception:  # noqa: BLE001
            p["raised"] = p.get("raised", 0) + 1
            continue
        for hist in hists:
            case = {"part": part, "tok": tok, "text": text, "hist": hist}
            key = h64([tok, text, hist])
            st.states.add(key)
            st.evaluations += 1
            p["evaluations"] += 1
            st.transitions += 3
            try:
                res, nref = run_history(text, tok, hist)
            except Exception:  # noqa: BLE001
                p["raised"] = p.get("raised", 0) + 1
                continue
            st.traces += 1
            if nref:
                st.nontrivial.add(key)
                if not st.samples:
                    st.sample(case)
            st.outcomes.add(h64([nref, len(res)]))
            for lab, det in res:
                st.violation(case, f"{lab}: {det} :: tokenizer={tok} text={text!r} history={hist}", label=f"{part}-{lab}")


PUMP_FILLERS = [" hello", "; 2 F.2d 2", " Id. at 5.", " Bar at 9,", ". Foo, supra, at 3", " 1 U.S. at 5;", "\n"]
PUMP_COPIES = [100, 300]


def pumped_cases(sh):
    """A short head (<= 2 fragments) followed by many copies of one filler fragment: long documents whose
    interesting part is short (size-dependent code paths)."""
    alpha = A3
    heads = [""] + list(alpha) + [a + b for a in alpha[:16] for b in alpha[:16]]
    for head in heads[sh["r"] :: sh["n"]]:
        for f in PUMP_FILLERS:
            for n in PUMP_COPIES:
                yield {"part": sh["part"], "tok": sh["tok"], "text": head + f * n}


def run_shard(sh):
    st = Stats()
    if sh.get("merge"):
        texts = (c["text"] for c in dd.seq_cases(sh, ALPHABETS))
        run_merge(st, sh["part"], texts, sh["tok"])
        return st
    if sh["kind"] == "mt":
        gen = itertools.chain.from_iterable(
            dd.char_mutations(t, MT_CHARS[sh.get("chars", "quick")], sh["edits"]) for t in MERGE_TEMPLATES
        )
        run_merge(st, sh["part"], dd.sliced(gen, sh["r"], sh["n"]), sh["tok"])
        return st
    if sh["kind"] == "fe":
        gen = ("".join(seq) for seq, _ in docspace.edit_mutations(FE_TEMPLATES[sh["t"]], A3 + FE_EXTRA, sh["edits"]))
        texts = list(dd.sliced(gen, sh["r"], sh["n"]))
        cases = ({"part": sh["part"], "tok": sh["tok"], "text": t} for t in texts)
        dd.run_cases(st, sh["part"], cases, evaluate, nontrivial=lambda c, t, cs: len(cs) >= 2)
        run_merge(st, "fragedit-merge", texts, sh["tok"])
        return st
    if sh["kind"] == "pump":
        return dd.run_cases(st, sh["part"], pumped_cases(sh), evaluate, nontrivial=lambda c, t, cs: len(cs) >= 2)
    return dd.run_cases(st, sh["part"], dd.seq_cases(sh, ALPHABETS), evaluate, nontrivial=lambda c, t, cs: len(cs) >= 2)
