"""C11 - 'skip' and 'wrap' modes keep well-formed markup well-formed."""

from __future__ import annotations

import itertools

from mc import annot
from mc.ey import short_exc
from mc.kernel import Stats, h64

ID = "C11"
TITLE = "'skip' and 'wrap' modes keep well-formed markup well-formed"
TECHNIQUE = (
    "bounded-exhaustive exploration of annotate_citations(): all well-formed element trees with <= n elements at every "
    "pair of gaps of a short text x all span tuples x {skip, wrap}; lxml judges well-formedness and text content"
)
TECHNIQUE += "; " + "also: three more tag families (upper case / em / unknown tag; attributes incl. a line break, '>' and non-ASCII characters inside a value), a 30-character text for the style-tag tolerance, both diff engines; a subset again under python -O"
RULE = (
    "sources = all element trees with <= 2 (quick) / 3 (thorough) elements over tags {i,b,p} (and, for <= 2 elements, {I,em,s}) (nested, sequential, empty); long: a 30-character text with element boundaries and span endpoints on a 10-point grid (style-tag tolerance of 10 characters) "
    "at all gap positions of 'wxyz' (thorough also 'wxyzu'), de-duplicated by serialisation; spans = all ordered tuples of "
    "<= 2 spans (empty included); before/after = <a>/</a>. non-trivial = source contains >= 1 tag strictly inside or at the "
    "edge of a requested non-empty span."
)
ASSUMPTIONS = [
    "entities and attributes are outside the generator (the statement's generator has none)",
    "plain text letters are disjoint from tag-name letters, so the diff alignment is forced",
    "'present' in wrap mode = every character of a non-empty annotation not overlapped by an earlier one lies inside an <a> element and no character outside all requested spans does",
]

TAGS = ["i", "b", "p"]
TAGS2 = ["I", "em", "s"]
TAGS3 = ['i\nclass="c"', 'p title="1 > 0"', 'b title="\u00a7\u00a7 1\u20134 \u00b6 2"']  # a start tag written across a line break; an attribute value containing '>'   # upper-case style tag, the third style tag, a tag the balancing does not know
CFG = {"quick": [("wxyz", 2)], "thorough": [("wxyz", 3), ("wxyzu", 2)]}


def bounds(tier):
    return {"texts_and_max_elements": CFG[tier], "tags": TAGS, "tags_2": TAGS2, "spans_per_call": 2, "modes": ["skip", "wrap"]}


def check(plain, source, ss, mode, dmp=True):
    marks = [("<a>", "</a>")] * len(ss)
    try:
        out = annot.annotate(plain, ss, source, mode, dmp, marks)
    except Exception as e:  # noqa: BLE001
        return [(f"raise-{mode}", short_exc(e))]
    res = []
    el = annot.wellformed(out)
    if el is None:
        return [(f"illformed-{mode}", f"output {out!r} is not well-formed")]
    if "".join(el.itertext()) != plain:
        res.append((f"text-{mode}", f"text content of {out!r} is {''.join(el.itertext())!r}, expected {plain!r}"))
    if out.replace("<a>", "").replace("</a>", "") != source:
        res.append((f"additive-{mode}", f"output {out!r} minus annotations differs from the source"))
    if mode == "wrap":
        covered = set()
        for a in el.iter("a"):
            covered |= set("".join(a.itertext()))
        order, clean = annot.clean_annotations(ss, marks)
        requested = set()
        for s, e in ss:
            requested |= set(plain[s:e])
        for j in clean:
            s, e = ss[j]
            missing = set(plain[s:e]) - covered
            if missing:
                res.append(("wrap-missing", f"annotation {ss[j]} characters {sorted(missing)} are not inside any <a> in {out!r}"))
        extra = covered - requested
        if extra:
            res.append(("wrap-extra", f"characters {sorted(extra)} annotated in {out!r} but in no requested span"))
    return res


def replay(case):
    res = check(case["plain"], case["source"], [tuple(s) for s in case["spans"]], case["mode"], case.get("dmp", True))
    return [{"msg": f"{lab}: {det} :: {case}", "label": lab} for lab, det in res]


LONG_PLAIN = "ABCDEFGHIJKLMNOPQRSTUVWXYZ0123"  # 30 distinct characters: an element can close (open) far more than 10 characters after (before) a span
LONG_TAGS = ["i", "em", "p"]


def long_cases(max_el):
    """(source, span tuple): every tree of <= max_el elements over the long text whose element boundaries lie on a coarse
    grid x every single span and every pair of spans with endpoints on the grid."""
    N = len(LONG_PLAIN)
    grid = [0, 1, 2, 3, 8, 15, 16, N - 2, N - 1, N]
    seen = set()
    spans = [(a, b) for a in grid for b in grid if a <= b]
    sets = [(sp,) for sp in spans] + [(x, y) for x in spans for y in spans]
    for tree in annot.element_trees(N, LONG_TAGS, max_el):
        if any(a not in grid or b not in grid for _, a, b in tree):
            continue
        source = annot.render_tree(LONG_PLAIN, tree)
        if source in seen:
            continue
        seen.add(source)
        el = annot.wellformed(source)
        if el is None or "".join(el.itertext()) != LONG_PLAIN:
            continue
        for ss in sets:
            yield tree, source, ss


def shards(tier, seed):
    out = [{"long": True, "max_el": 1 if tier == "quick" else 2, "r": r, "n": 16} for r in range(16)]
    for plain, mx in CFG[tier]:
        n = 16 if mx <= 2 else 64
        for r in range(n):
            out.append({"plain": plain, "max_el": mx, "r": r, "n": n, "both_engines": mx <= 2})
            if mx <= 2:
                out.append({"plain": plain, "max_el": mx, "r": r, "n": n, "tags": TAGS2})
                out.append({"plain": plain, "max_el": mx, "r": r, "n": n, "tags": TAGS3})
    return out


def opt_shards(tier):
    return [{"plain": "wxyz", "max_el": 2, "r": r, "n": 8} for r in range(8)]


def run_shard(sh):
    st = Stats()
    if sh.get("long"):
        p = st.part(f"long-{sh['max_el']}el")
        for tree, source, ss in itertools.islice(long_cases(sh["max_el"]), sh["r"], None, sh["n"]):
            key = h64([source, ss])
            st.states.add(key)
            if tree and any(s < e for s, e in ss):
                st.nontrivial.add(key)
            for mode in ("skip", "wrap"):
                st.evaluations += 1
                st.traces += 1
                st.transitions += 1
                p["evaluations"] += 1
                res = check(LONG_PLAIN, source, ss, mode)
                st.outcomes.add(h64([r[0] for r in res]) if res else 0)
                for lab, det in res:
                    st.violation({"plain": LONG_PLAIN, "source": source, "spans": [list(x) for x in ss], "mode": mode}, f"{lab}: {det} :: source={source!r} spans={ss}", label="long-" + lab)
        return st
    plain = sh["plain"]
    p = st.part(f"{plain}-{sh['max_el']}el")
    assert len(set(plain)) == len(plain) and not (set(plain) & set("ibpaIemsclt"))
    sets = list(annot.span_sets(len(plain), 2))
    seen = set()
    for tree in itertools.islice(annot.element_trees(len(plain), sh.get("tags") or TAGS, sh["max_el"]), sh["r"], None, sh["n"]):
        source = annot.render_tree(plain, tree)
        if source in seen:
            continue
        seen.add(source)
        el = annot.wellformed(source)
        if el is None or "".join(el.itertext()) != plain:
            st.extra["generator_rejected"] = st.extra.get("generator_rejected", 0) + 1
            continue
        st.extra.setdefault("sources", set()).add(h64(source))
        for ss in sets:
            key = h64([source, ss])
            st.states.add(key)
            if tree and any(s < e for s, e in ss):
                st.nontrivial.add(key)
                if not st.samples and len(tree) == sh["max_el"]:
                    st.sample({"plain": plain, "source": source, "spans": [list(s) for s in ss]})
            for mode in ("skip", "wrap"):
                st.evaluations += 1
                st.traces += 1
                st.transitions += 1
                p["evaluations"] += 1
                for dmp in (True, False) if sh.get("both_engines") else (True,):
                    res = check(plain, source, ss, mode, dmp)
                    if not dmp:
                        st.evaluations += 1
                        st.traces += 1
                        st.transitions += 1
                        p["evaluations"] += 1
                    st.outcomes.add(h64([r[0] for r in res]) if res else 0)
                    for lab, det in res:
                        case = {"plain": plain, "source": source, "spans": [list(s) for s in ss], "mode": mode, "dmp": dmp}
                        st.violation(case, f"{lab}: {det} :: source={source!r} spans={ss} engine={'dmp' if dmp else 'difflib'}", label=lab)
    return st
