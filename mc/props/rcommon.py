"""Common driver for C06, C07, C08 (one exploration, three oracles, three separate checks)."""

from __future__ import annotations

import itertools

from mc import docspace, resolver as R
from mc.ey import get_citations, resolve_citations, short_exc
from mc.kernel import Stats, h64

L_FULL = {"quick": 3, "thorough": 3}  # the whole alphabet (53 symbols): 53^4 would be 7.9 million sequences
L_MID = 4  # thorough only: length 4 over the 32 most interacting symbols
L_CORE = {"quick": 4, "thorough": 5}

DOC_DEPTH = {"quick": 3, "thorough": 4}

# fragments for the "lists produced by extraction" part: ambiguous documents
AR = [
    "Foo v. Bar, 1 U.S. 10 (1990). ",
    "Smith v. Jones, 1 U.S. 50 (1991). ",
    "Bar v. Baker, 2 F.2d 20 (1992). ",
    "Roe v. Wade, 410 U.S. ___ (1973). ",
    "See 1 U.S. at 12. ",
    "Jones, 1 U.S. at 52. ",
    "See 2 F.2d at 25. ",
    "Bar, supra, at 11. ",
    "Foo, supra. ",
    "Id. at 12. ",
    "Id. ",
    "Id. at 900. ",
    "Jones at 55 held. ",
    "See § 5. ",
    "1 Minn. L. Rev. ___. ",
    "Mass. Gen. Laws ch. 1, § 2. ",
    "See Foo v. Bar, 1 U. S. 10, 12 (1990). ",
    "Nothing here. ",
    "Baz v. Qux, 1 U.S. ___ (1991). ",
    "Foo v. Bar, 1 U.S. ___ (1990). ",
    "Qux, 1 U.S. at 7. ",
    "Kim v. Lee, 2 F.3d 20 (1995). ",
    "Carpenter v. United States, 585 U.S. _ (2018). ",
    "Trump v. Hawaii, 585 U.S. _ (2018). ",
    "Smith v. Jones, 1 U.S. 10 (1990). ",
    "1 U.S. 10. ",
]

ASSUMPTIONS = [
    "default resolvers only; custom resolver callbacks are outside the property",
    "abstract alphabet of 55 citation kinds (real objects extracted once from snippets, shallow-copied per position)",
    "BFS canonical state = (set of full-citation classes seen, placeholder-page count capped at 2, class of last resolution); "
    "soundness of this abstraction is checked by comparing all one-step futures of two representative histories per state",
]


def rule(pid):
    return (
        "seq: every sequence of length <= L over the 55-symbol alphabet (and <= L' over the 20 most interacting symbols) "
        "through the real resolve_citations; bfs: explicit-state search over canonical resolver states to fix-point, every "
        "transition executes the real resolver on representative+[event]; docs: lists extracted by get_citations from all "
        "concatenations of <= k ambiguous-document fragments (all prefixes for C08); pumped: every head of <= 3 core symbols followed by "
        "100-520 copies of a filler symbol (size-dependent code paths). distinct = distinct sequence/text; "
        "non-trivial = sequence with a non-full citation after at least one full citation."
    )


BFS_DROP_QUICK = ("fullU", "fullC3", "fullA0", "fullA3", "fullA4", "lawR1", "lawR2", "jour2", "lawU1", "lawU2", "fullM1", "fullM2", "fullM3", "idEdgeIn", "fullA5", "fullBrown", "supraBros", "fullJ2", "supraJones", "fullM4", "fullMac", "supraMacArthur", "fullM5", "fullFoo2", "supraFooVol", "fullDoeS", "fullDze", "refDze")  # structurally covered by fullP/fullQ and fullC in the sequence parts
G = {}


BFS_KEEP_THOROUGH = ("fullU", "fullA4", "lawR1")  # measured: 26 symbols -> 3,072 states / 79,872 transitions; 29 -> 22,464 / 651,456; all 36 exceed 400,000 states


def bfs_names(tier):
    return [n for n in R.NAMES if n not in BFS_DROP_QUICK or (tier == "thorough" and n in BFS_KEEP_THOROUGH)]


def setup(tier, seed):
    R.build_alphabet()
    if tier in ("quick", "thorough"):
        _TIER["t"] = tier
    if tier != "replay" and "bfs" not in G:
        # state-graph discovery in the parent (one real resolver run per transition); the oracle and the
        # canon-soundness differential are evaluated on every transition in parallel shards
        G["bfs"] = R.bfs(bfs_names(tier), check_sound=False)
        G["bfs_names"] = bfs_names(tier)


def bounds(tier):
    return {"alphabet": R.NAMES, "L_full": L_FULL[tier], "core_alphabet": R.CORE12, "L_core": L_CORE[tier], "mid_alphabet": R.MID32 if tier == "thorough" else None, "L_mid": L_MID if tier == "thorough" else None, "bfs": "fix-point over " + str(len(bfs_names(tier))) + " symbols", "doc_fragments": len(AR), "doc_depth": DOC_DEPTH[tier], "pumped": {"head_len": 3, "fillers": PUMP_FILLERS, "copies": PUMP_LENGTHS[tier]}}


def shards(tier, seed):
    out = [{"part": "bfs", "r": r, "n": 48} for r in range(48)]
    n = len(R.NAMES)
    out.append({"part": "seq", "alpha": "full", "prefix": [], "L": 1})  # lengths 0..1
    for a in range(n):
        for b in range(n):
            out.append({"part": "seq", "alpha": "full", "prefix": [a, b], "L": L_FULL[tier]})
    m = len(R.CORE12)
    for a in range(m):
        for b in range(m):
            out.append({"part": "seq-core", "alpha": "core", "prefix": [a, b], "L": L_CORE[tier], "minlen": L_FULL[tier] + 1})
    for a in range(len(R.DEEP7)):
        for b in range(len(R.DEEP7)):
            out.append({"part": "seq-deep", "alpha": "deep", "prefix": [a, b], "L": 6, "minlen": 5})
    if tier == "thorough":
        mid = R.MID32
        for a in range(len(mid)):
            for b in range(len(mid)):
                out.append({"part": "seq-mid", "alpha": "mid", "prefix": [a, b], "L": L_MID, "minlen": L_FULL[tier] + 1})
    for sh in docspace.shards_for(AR, DOC_DEPTH[tier], 1):
        out.append({"part": "docs", **sh, "depth": DOC_DEPTH[tier]})
    for a in range(m):
        out.append({"part": "pumped", "first": a, "L": 3})
    return out


def opt_shards(tier):
    """Under python -O: every sequence of length <= 3 over the core alphabet."""
    m = len(R.CORE12)
    return [{"part": "seq-core", "alpha": "core", "prefix": [a, b], "L": 3, "minlen": 0} for a in range(m) for b in range(m)]


PUMP_FILLERS = ["unknown", "fullB", "idNoPin", "law"]
PUMP_CORE_QUICK = ["fullA0", "fullA", "fullA3", "fullB", "fullP", "shortAmb", "supraFoo", "supraBar", "refJones", "idNoPin"]
PUMP_LENGTHS = {"quick": [100, 130], "thorough": [64, 100, 130, 257, 520]}
_TIER = {"t": "quick"}


def pumped_sequences(first, L):
    """Every sequence s (first symbol fixed, |s| <= L over the core alphabet) followed by n copies of a filler
    symbol: long lists whose interesting part is short (size-dependent code paths, e.g. 'large input' modes)."""
    core = R.CORE12
    small = PUMP_CORE_QUICK if _TIER["t"] == "quick" else core
    for extra in range(0, L):
        for tail in itertools.product(core if extra < 2 else small, repeat=extra):
            if extra == 2 and _TIER["t"] == "quick" and core[first] not in small:
                continue
            s_ = [core[first]] + list(tail)
            for f in PUMP_FILLERS:
                for n in PUMP_LENGTHS[_TIER["t"]]:
                    yield s_, f, n


def check_objs(pid, objs):
    """-> (violations [(label, detail)], signature)"""
    try:
        res = resolve_citations(objs)
    except Exception as e:  # noqa: BLE001
        return [], None  # C04's business
    if pid == "C08":
        out = R.oracle_c08(objs, res)
    else:
        out = R.ORACLES[pid](objs, res)
    return out, R.grouping_signature(objs, res)


def nontrivial_seq(objs):
    seen_full = False
    for o in objs:
        if isinstance(o, R.M.FullCitation):
            seen_full = True
        elif seen_full:
            return True
    return False


def pumped_check(pid, s_, f, n):
    seq = list(s_) + [f] * n
    objs = R.instantiate(seq)
    whole = resolve_citations(objs)
    pre = resolve_citations(objs[: len(s_)])
    out = []
    if pid == "C08":
        gw, _, _ = R.index_view(objs, whole)
        gp, _, _ = R.index_view(objs[: len(s_)], pre)
        restr = [[i for i in g if i < len(s_)] for g in gw]
        restr = [g for g in restr if g]
        if gp != restr:
            out.append(("prefix", f"resolve(prefix of length {len(s_)})={gp} but resolve(whole list of {len(seq)}) restricted to it={restr}"))
    else:
        out = R.ORACLES[pid](objs, whole)
    return out, objs, pre


def replay(case, pid):
    R.build_alphabet()
    if case.get("part") == "pumped":
        out, _, _ = pumped_check(pid, case["head"], case["filler"], case["n"])
        return [{"msg": f"{lab}: {det} :: case={case}", "label": lab} for lab, det in out]
    if "seq" in case:
        objs = R.instantiate(case["seq"])
        out, _ = check_objs(pid, objs)
    else:
        objs = get_citations(case["text"])
        out = []
        rng = range(1, len(objs) + 1) if pid == "C08" else [len(objs)]
        for j in rng:
            o, _ = check_objs(pid, objs[:j])
            out += o
    return [{"msg": f"{lab}: {det} :: case={case}", "label": lab} for lab, det in out]


def run_shard(sh, pid):
    st = Stats()
    p = st.part(sh["part"])
    if sh["part"] == "bfs":
        r = G["bfs"]
        names = G["bfs_names"]
        states = sorted(r["seen"].items(), key=lambda kv: (len(kv[1]), kv[1]))
        unsound = []
        for c, h in states[sh["r"] :: sh["n"]]:
            st.states.add(h64(repr(c)))
            for ev in names:
                nh = list(h) + [ev]
                objs = R.instantiate(nh)
                out, sig = check_objs(pid, objs)
                st.evaluations += 1
                st.traces += 1
                st.transitions += 1
                p["evaluations"] += 1
                if nontrivial_seq(objs):
                    st.nontrivial.add(h64(nh))
                st.outcomes.add(h64(sig))
                for lab, det in out:
                    st.violation({"part": "bfs", "seq": list(nh)}, f"{lab}: {det} :: sequence={nh}", label=f"bfs-{lab}")
            rs = r["reps"].get(c, [])
            if len(rs) == 2:
                for ev in names:
                    a = R.step_outcome(rs[0], ev)
                    b = R.step_outcome(rs[1], ev)
                    st.extra["bfs_one_step_futures_compared"] = st.extra.get("bfs_one_step_futures_compared", 0) + 1
                    if a != b:
                        unsound.append((c, rs, ev, a, b))
        if sh["r"] == 0:
            st.extra["bfs_canonical_states"] = r["states"]
            st.extra["bfs_transitions"] = r["transitions"]
            st.extra["bfs_longest_shortest_history"] = r["depth"]
            st.extra["bfs_states_with_two_representatives"] = r["two_reps"]
            st.extra["bfs_alphabet"] = len(names)
            if r["capped"]:
                st.caps_hit.append("bfs max_states")
            st.sample({"part": "bfs", "longest_history_example": max(r["seen"].values(), key=len)})
        if unsound:
            st.extra["bfs_canon_unsound"] = len(unsound)
            st.extra["harness_errors"] = [f"canonical state abstraction unsound: {unsound[:2]!r}"]
        return st
    if sh["part"] in ("seq", "seq-core", "seq-mid", "seq-deep"):
        names = R.NAMES if sh["alpha"] == "full" else (R.MID32 if sh["alpha"] == "mid" else (R.DEEP7 if sh["alpha"] == "deep" else R.CORE12))
        prefix = [names[i] for i in sh["prefix"]]
        L = sh["L"]
        minlen = sh.get("minlen", 0)
        if not prefix:
            seqs = [[]] + [[n] for n in names]
        else:
            seqs = (prefix + list(t) for extra in range(0, L - len(prefix) + 1) for t in itertools.product(names, repeat=extra))
        for seq in seqs:
            st.transitions += 1
            if len(seq) < minlen:
                continue
            objs = R.instantiate(seq)
            out, sig = check_objs(pid, objs)
            st.evaluations += 1
            st.traces += 1
            p["evaluations"] += 1
            k = h64(seq)
            st.states.add(k)
            if nontrivial_seq(objs):
                st.nontrivial.add(k)
                if not st.samples and len(seq) == L:
                    st.sample({"part": sh["part"], "sequence": seq, "grouping": [list(g) for g in sig] if sig is not None else None})
            st.outcomes.add(h64(sig))
            for lab, det in out:
                st.violation({"part": sh["part"], "seq": seq}, f"{lab}: {det} :: sequence={seq}", label=f"seq-{lab}")
        return st
    if sh["part"] == "pumped":
        for s_, f, n in pumped_sequences(sh["first"], sh["L"]):
            seq = s_ + [f] * n
            try:
                out, objs, pre = pumped_check(pid, s_, f, n)
            except Exception:  # noqa: BLE001
                continue
            st.evaluations += 1
            st.traces += 1
            st.transitions += len(seq)
            p["evaluations"] += 1
            k = h64([s_, f, n])
            st.states.add(k)
            if nontrivial_seq(objs[: len(s_)]):
                st.nontrivial.add(k)
                if not st.samples:
                    st.sample({"part": "pumped", "head": s_, "filler": f, "copies": n})
            st.outcomes.add(h64(R.grouping_signature(objs[: len(s_)], pre)))
            for lab, det in out:
                st.violation({"part": "pumped", "head": s_, "filler": f, "n": n}, f"{lab}: {det} :: head={s_} followed by {n} x {f}", label=f"pumped-{lab}")
        return st
    # docs
    seen = set()
    for idx, text in docspace.walk(AR, sh["depth"], sh):
        st.transitions += 1
        if text in seen:
            continue
        seen.add(text)
        try:
            objs = get_citations(text)
        except Exception:  # noqa: BLE001
            continue
        rng = range(1, len(objs) + 1) if pid == "C08" else [len(objs)]
        k = h64(text)
        st.states.add(k)
        for j in rng:
            out, sig = check_objs(pid, objs[:j])
            st.evaluations += 1
            st.traces += 1
            p["evaluations"] += 1
            st.outcomes.add(h64(sig))
            for lab, det in out:
                st.violation({"part": "docs", "text": text}, f"{lab}: {det} :: text={text!r} prefix_len={j}", label=f"docs-{lab}")
        if nontrivial_seq(objs):
            st.nontrivial.add(k)
            if not st.samples and len(idx) == sh["depth"]:
                st.sample({"part": "docs", "text": text, "kinds": [type(o).__name__ for o in objs]})
    return st
