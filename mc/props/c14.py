"""C14 - the Hyperscan tokenizer is a drop-in replacement for the default one, whatever the cache contains."""

from __future__ import annotations

import itertools
import re
import os
import shutil
import tempfile

from mc import docspace, rx
from mc.ey import M, T, get_citations, ser, ser_token, short_exc, tokenizer
from mc.kernel import Stats, VERIF, h64

ID = "C14"
TITLE = "The Hyperscan tokenizer is a drop-in replacement for the default one"
TECHNIQUE = (
    "bounded-exhaustive exploration: every extractor's witness x every ordered pair of ASCII/multi-byte neighbours, all "
    "fragment documents <= k, compared candidate-by-candidate with the reference tokenizer; exhaustive fault enumeration of "
    "the cache file (every truncation length, every value of every header byte, bit flips, zeroed blocks, appended bytes) "
    "and crash-point enumeration of the real cache-writing code (writer killed after N bytes via RLIMIT_FSIZE)"
)
TECHNIQUE += "; " + 'also: merged token streams, punctuation runs around id./supra/stop-word/section tokens, every continuation-byte value, several tokenizers sharing one cache directory'
RULE = (
    "matrix: for each of the 6.8k extractors one witness (shortest word of its regex NFA) x all ordered neighbour pairs from a "
    "7-symbol set (quick) / 12-symbol set plus 36 two-character neighbours (thorough), ASCII and multi-byte; punct: every id./supra/stop-word/section witness x every run of <= 3 punctuation marks (ASCII and multi-byte) on each side; docs: all concatenations of <= k "
    "fragments of A14 (multi-byte characters before, after, between and at literal positions inside citations) vs the plain "
    "reference Tokenizer; cache: every fault of the fault model applied to a freshly written cache of a 7-extractor list, then "
    "a new tokenizer is built and 20 texts tokenised; crash: the real writer is killed after N bytes for every N of the crash-point "
    "set and tokenizers are then built twice on whatever it left. distinct = distinct text / distinct cache content; non-trivial = text "
    "with >= 1 reference candidate / cache content different from the valid one."
)
ASSUMPTIONS = [
    "domain of the statement: no non-ASCII whitespace or digits, none of U+017F/U+0130/U+0131/U+212A, no \\x1c-\\x1f; multi-byte characters "
    "only around tokens and at literal positions inside them",
    "matrix part uses the Aho-Corasick tokenizer's candidates as reference (shown lossless by C13); the docs part uses the plain Tokenizer",
    "cache crash states are modelled as prefixes, byte/bit corruptions, zeroed 4 KB blocks, appended bytes of one write_bytes; 'written by another library version' = other values of the version/platform header fields",
    "an additional Hyperscan candidate is 'genuine' iff some extractor of the same token type full-matches the real text around exactly those offsets with real boundaries",
]

NEIGH = ["", " ", "x", "1", ".", ")", "\n", "é", "“", "—", "§", "’"]
NEIGH_QUICK = ["", " ", "x", "1", "é", "“", "§"]
A14 = [
    "1 U.S. 1",
    " ",
    "“",
    "”",
    "é",
    "—",
    "Foo v. Bar, ",
    "1 U.S. at 5",
    "Id. at 5",
    "Foo, supra",
    "42 U.S.C. § 1983",
    "¶ 5",
    "’",
    "Peña v. José, ",
    "2 F.2d 2",
    " (1999)",
    ". ",
    "; ",
    "1 Minn. L. Rev. ___",
    "v.",
    "§§",
    "Id.",
    "See ",
    "3 Thompson 4",
    "Mass. Gen. Laws ch. 1, §§ 2",
    "\n",
    "x",
    "1",
    "aff’d",
    "Id., at 4",
]
DEPTH = {"quick": 2, "thorough": 3}
CACHE_TEXTS = [
    "Foo v. Bar, 1 U.S. 1 (1999).",
    "See 2 F.2d 2; Id. at 5.",
    "Foo, supra, at 3.",
    "1 U.S. at 5",
    "“1 U.S. 1”",
    "§ 3",
    "a\nb",
    "nothing here",
    "",
    "see id.",
    "1 U.S. 12 F.2d 2",
    "v. Bar",
    "Id. Id.",
    "1 U.S. ___",
    "X v. Y, 2 F.2d 3, 4 (2d Cir. 1999) (en banc)",
    "é1 U.S. 1é",
    "supra§",
    "1 F.2d at 9",
    "In re Foo, 1 U.S. 1",
    "ibid.",
]

G = {}


def byte_cover_chars():
    """Multi-byte neighbours such that every continuation-byte value 0x80..0xBF occurs in every continuation
    position of 2-, 3- and 4-byte UTF-8 sequences (characters outside the statement's domain are dropped)."""
    cps = set()
    cps |= set(range(0xC0, 0x100))  # C3 80..BF
    cps |= set(range(0xA1, 0xC0))  # C2 A1..BF
    cps |= {0x2000 + v for v in range(64)}  # E2 80 xx
    cps |= {0x1000 + 64 * k for k in range(64)}  # E1 xx 80
    cps |= {0xFFC0 + v for v in range(0x3E)} | {0xFFFD, 0xFEFF}  # EF BF xx, U+FFFD, BOM
    cps |= {0x1F600 + v for v in range(64)}  # F0 9F 98 xx
    cps |= {0x1F000 + 64 * k for k in range(64)}  # F0 9F xx 80
    cps |= {0x10000 + 4096 * k for k in range(64)}  # F0/F1.. xx 80 80
    out = []
    for cp in sorted(cps):
        c = chr(cp)
        try:
            c.encode("utf8")
        except UnicodeEncodeError:
            continue
        if in_domain(c):
            out.append(c)
    return out


def in_domain(text):
    for c in text:
        o = ord(c)
        if o < 128:
            if 0x1C <= o <= 0x1F:
                return False
        elif c.isspace() or c.isdigit() or c.isdecimal() or o in (0x17F, 0x130, 0x131, 0x212A):
            return False
    return True


def setup(tier, seed):
    if tier == "replay" and G:
        return
    G["hs"] = tokenizer("HS")
    G["ac"] = tokenizer("AC")
    G["ref"] = tokenizer("REF")
    ex = T.EXTRACTORS
    if tier != "replay":
        preds = {}
        nfas = []
        for e in ex:
            nfa = rx.nfa_of(e.regex, e.flags)
            for k, v in nfa.nodes.items():
                preds.setdefault(k, v)
        G["members"] = {k: rx.pred_members(node, fl) for k, (node, fl) in preds.items()}
    n = len(ex)
    pool = []
    for pred in (
        lambda e: "U\\.S\\." in e.regex and "at " not in e.regex and not e.flags,
        lambda e: "U\\.S\\." in e.regex and "at " in e.regex,
        lambda e: "F\\.2d" in e.regex and "at " not in e.regex,
    ):
        for e in ex:
            if pred(e) and e not in pool:
                pool.append(e)
                break
    pool += [ex[n - 5], ex[n - 4], ex[n - 3], ex[n - 1]]  # id, supra, paragraph, section
    G["cache_pool"] = pool
    G["by_type"] = {}
    for e in ex:
        G["by_type"].setdefault(e.constructor.__self__.__name__, []).append(e)


def bounds(tier):
    return {"extractors": len(T.EXTRACTORS), "neighbours": NEIGH_QUICK if tier == "quick" else NEIGH, "neighbour_pairs_of_len2": tier != "quick", "doc_alphabet": len(A14), "doc_depth": DEPTH[tier], "cache_extractors": 7, "cache_texts": len(CACHE_TEXTS)}


PREFER = ["1", "a", "A", " ", ".", "x"]


def witness(e):
    nfa = rx.nfa_of(e.regex, e.flags)
    members = G["members"]
    words = rx.transition_words(nfa, members)
    best = None
    for w in sorted(words, key=len):
        m = e.compiled_regex.fullmatch(w)
        if m and m.group(1):
            best = m.group(1)
            break
    return best


def genuine(text, tokd):
    """Is there an extractor of the same token type whose pattern, matched in place on the real text (real boundaries,
    real end of text), puts group 1 at exactly these offsets? The match may start at the token or one character
    before it (the boundary character the patterns consume)."""
    s, e = tokd["start"], tokd["end"]
    for ex in G["by_type"].get(tokd["kind"], []):
        for pos in (s - 1, s):
            if pos < 0:
                continue
            m = ex.compiled_regex.match(text, pos)
            if m and m.span(1) == (s, e):
                if tokd["kind"] == "CitationToken" and bool(ex.extra.get("short")) != bool(tokd["short"]):
                    continue
                return True
    return False


def class_matched_multibyte(text, tokd, ref_tok):
    """True when the candidate contains a multi-byte character at a position where byte classes and code-point classes
    cannot coincide: the position is matched by a character class of the pattern (substituting another multi-byte letter
    leaves a candidate of the same kind at the same offsets) AND that class is either sensitive to the Unicode category of
    the character (a multi-byte punctuation mark there kills the candidate: \\w-like classes) or matches exactly one
    character (two multi-byte letters there kill the candidate: a byte automaton sees two or three bytes). A position under
    an unbounded repetition of a class that accepts every non-ASCII character (\\S*, [^\\sa-zA-Z0-9]*) is inside the domain:
    there every byte of the character satisfies the byte class, so the two readings do coincide."""

    def survives(t2, end_shift=0):
        try:
            for t in ref_tok.extract_tokens(t2):
                if type(t).__name__ == tokd["kind"] and (t.start, t.end) == (tokd["start"], tokd["end"] + end_shift):
                    return True
        except Exception:  # noqa: BLE001
            return False
        return False

    for i in range(tokd["start"], tokd["end"]):
        c = text[i]
        if ord(c) < 128:
            continue
        letter = "ü" if c != "ü" else "ö"
        if not survives(text[:i] + letter + text[i + 1 :]):
            continue  # literal position
        punct = "—" if c != "—" else "“"
        if not survives(text[:i] + punct + text[i + 1 :]):
            return True  # category-sensitive class
        if not survives(text[:i] + letter + letter + text[i + 1 :], 1):
            return True  # single-character class position
    return False


def freeze(x):
    if isinstance(x, dict):
        return tuple(sorted((k, freeze(v)) for k, v in x.items()))
    if isinstance(x, (list, tuple)):
        return tuple(freeze(v) for v in x)
    return x


def compare_candidates(text, ref_tok, label):
    """-> (results, n_ref_candidates, sets_coincide)"""
    try:
        ref = [ser_token(t) for t in ref_tok.extract_tokens(text)]
    except Exception as e:  # noqa: BLE001
        return [], 0, False
    try:
        hs = [ser_token(t) for t in G["hs"].extract_tokens(text)]
    except Exception as e:  # noqa: BLE001
        return [("hs-raise", short_exc(e))], len(ref), False
    fr = {freeze(t): t for t in ref}
    fh = {freeze(t): t for t in hs}
    res = []
    for k, t in fr.items():
        if k not in fh:
            if class_matched_multibyte(text, t, ref_tok):
                continue  # outside the statement's domain (byte and code-point classes cannot coincide there)
            near = [h for h in hs if h["kind"] == t["kind"] and (h["start"], h["end"]) == (t["start"], t["end"])]
            res.append(("hs-misses", f"reference candidate {t['kind']} {t['data']!r}@({t['start']},{t['end']}) not reported identically by Hyperscan ({'differs: ' + repr(near[0]) if near else 'absent'}) [{label}]"))
    for k, t in fh.items():
        if k not in fr:
            if not genuine(text, t):
                res.append(("hs-bogus", f"additional Hyperscan candidate {t['kind']} {t['data']!r}@({t['start']},{t['end']}) is not a match of its pattern at those offsets [{label}]"))
    return res, len(ref), set(fr) == set(fh)


def merged_stream(tok, text):
    """The special tokens after Tokenizer.tokenize()'s overlap handling and merging (editions are part of a token)."""
    return [(i, freeze(ser_token(t))) for i, t in tok.tokenize(text)[1]]


def check_text(text, ref_name, citations=True):
    ref_tok = G["ac"] if ref_name == "AC" else G["ref"]
    res, nref, same = compare_candidates(text, ref_tok, f"reference={ref_name}")
    if same and nref:
        # candidate sets coincide: unless two distinct candidates cover the same characters, the token streams after
        # merging must agree too (Hyperscan may report one pattern several times for one span; merging must absorb that)
        try:
            cands = [ser_token(t) for t in ref_tok.extract_tokens(text)]
            spans = {}
            for t in cands:
                spans.setdefault((t["start"], t["end"]), set()).add(freeze({k: v for k, v in t.items() if k not in ("exact", "variation")}))
            if all(len(v) == 1 for v in spans.values()):
                a, b = merged_stream(G["hs"], text), merged_stream(ref_tok, text)
                if a != b:
                    d = next((x, y) for x, y in itertools.zip_longest(a, b) if x != y)
                    res.append(("merged-differ", f"candidate sets coincide but the merged token streams differ: Hyperscan {d[0]} vs reference {d[1]}"))
        except Exception:  # noqa: BLE001
            pass
    if same and citations:
        spans = {}
        ok = True
        try:
            for t in ref_tok.extract_tokens(text):
                spans.setdefault((t.start, t.end), set()).add(freeze(ser_token(t)))
        except Exception:  # noqa: BLE001
            ok = False
        if ok and all(len(v) == 1 for v in spans.values()):
            try:
                a = [ser(c) for c in get_citations(text, tokenizer=G["hs"])]
                b = [ser(c) for c in get_citations(text, tokenizer=ref_tok)]
                if a != b:
                    d = next((x, y) for x, y in itertools.zip_longest(a, b) if x != y)
                    res.append(("citations-differ", f"candidate sets coincide but citations differ: {d[0]} vs {d[1]}"))
            except Exception as e:  # noqa: BLE001
                pass
    return res, nref


# ---- cache faults ------------------------------------------------------------------------------


def fresh_cache(dirpath):
    """Write a cache with the REAL code; return (path of the cache file, valid bytes)."""
    tk = T.HyperscanTokenizer(extractors=list(G["cache_pool"]), cache_dir=dirpath)
    tk.hyperscan_db
    files = [f for f in os.listdir(dirpath)]
    assert len(files) == 1, files
    p = os.path.join(dirpath, files[0])
    return p, open(p, "rb").read()


def baseline_tokens():
    tk = T.HyperscanTokenizer(extractors=list(G["cache_pool"]), cache_dir=None)
    return [[freeze(ser_token(t)) for t in tk.tokenize(x)[0]] for x in CACHE_TEXTS]


def run_fault(dirpath, path, content):
    """content None = file absent. -> results"""
    if content is None:
        if os.path.exists(path):
            os.unlink(path)
    else:
        with open(path, "wb") as f:
            f.write(content)
    try:
        tk = T.HyperscanTokenizer(extractors=list(G["cache_pool"]), cache_dir=dirpath)
        got = [[freeze(ser_token(t)) for t in tk.tokenize(x)[0]] for x in CACHE_TEXTS]
    except BaseException as e:  # noqa: BLE001
        return [("cache-raise", short_exc(e).replace(dirpath, "<cache_dir>"))]
    if got != G["baseline"]:
        i = next(i for i, (a, b) in enumerate(zip(got, G["baseline"])) if a != b)
        return [("cache-tokens-differ", f"tokens for {CACHE_TEXTS[i]!r} differ from the cache-less tokenizer")]
    return []


def crash_points(size, tier):
    pts = {0, 1, 7, 8, 9, 39, 40, 41, 64, 100, 4095, 4096, 4097, size // 2, size - 4097, size - 4096, size - 9, size - 8, size - 1}
    step = 4096 if tier == "quick" else 256
    pts |= set(range(0, size, step))
    return sorted(p for p in pts if 0 <= p < size)


def run_crash(limit):
    """Crash the REAL cache-writing code after `limit` bytes (RLIMIT_FSIZE in a forked child, killed by
    SIGXFSZ like a process dying mid-write), then build tokenizers on whatever it left behind."""
    import resource
    import signal

    os.makedirs(VERIF / ".work", exist_ok=True)
    d = tempfile.mkdtemp(prefix="c14c-", dir=str(VERIF / ".work"))
    try:
        pid = os.fork()
        if pid == 0:
            try:
                signal.signal(signal.SIGXFSZ, signal.SIG_DFL)
                resource.setrlimit(resource.RLIMIT_FSIZE, (limit, limit))
                tk = T.HyperscanTokenizer(extractors=list(G["cache_pool"]), cache_dir=d)
                tk.hyperscan_db
            finally:
                os._exit(0)
        _, status = os.waitpid(pid, 0)
        left = sorted((f, os.path.getsize(os.path.join(d, f))) for f in os.listdir(d))
        res = []
        for attempt in (1, 2):
            try:
                tk = T.HyperscanTokenizer(extractors=list(G["cache_pool"]), cache_dir=d)
                got = [[freeze(ser_token(t)) for t in tk.tokenize(x)[0]] for x in CACHE_TEXTS]
            except BaseException as e:  # noqa: BLE001
                res.append(("crash-raise", f"writer crashed after {limit} bytes leaving {left}; tokenizer construction #{attempt} raised {short_exc(e).replace(d, '<cache_dir>')}"))
                break
            if got != G["baseline"]:
                res.append(("crash-tokens-differ", f"writer crashed after {limit} bytes leaving {left}; tokens differ from the cache-less tokenizer (construction #{attempt})"))
                break
        return res, left, os.WIFSIGNALED(status)
    finally:
        shutil.rmtree(d, ignore_errors=True)


SHARED_LISTS = ["pool", "reversed", "rotated", "first5", "specials-first", "custom"]
CUSTOM_TEXTS = ["See \u201c1 U,S, 1\u201d; accord 2 U.S. 2 \u2014 and \u00a7 3, id, at 4.", "1 U,S, at 5; Foo, supra, at 3"]


def shared_list(name):
    pool = list(G["cache_pool"])
    if name == "reversed":
        return pool[::-1]
    if name == "rotated":
        return pool[3:] + pool[:3]
    if name == "first5":
        return pool[:5]
    if name == "specials-first":
        return pool[-2:] + pool[:-2]
    if name == "custom":
        # the recipe of the test suite's custom-tokenizer test: copy each extractor, edit its pattern, drop the compiled regex
        import copy

        out = []
        for e in pool:
            c = copy.copy(e)
            c.regex = c.regex.replace(r"\.", r"[.,]")
            c.__dict__.pop("_compiled_regex", None)
            out.append(c)
        return out
    return pool


def run_shared(hist):
    """One cache directory used by several tokenizers, built one after another over different extractor lists / orders:
    each must tokenize exactly like a cache-less tokenizer over its own list."""
    os.makedirs(VERIF / ".work", exist_ok=True)
    d = tempfile.mkdtemp(prefix="c14s-", dir=str(VERIF / ".work"))
    res = []
    try:
        for step, name in enumerate(hist):
            L = shared_list(name)
            try:
                tk = T.HyperscanTokenizer(extractors=list(L), cache_dir=d)
                got = [[freeze(ser_token(t)) for t in tk.tokenize(x)[0]] for x in CACHE_TEXTS]
            except BaseException as e:  # noqa: BLE001
                res.append(("shared-cache-raise", f"history {hist[: step + 1]}: {short_exc(e).replace(d, '<cache_dir>')}"))
                break
            want = [[freeze(ser_token(t)) for t in T.HyperscanTokenizer(extractors=list(L), cache_dir=None).tokenize(x)[0]] for x in CACHE_TEXTS]
            # and like the reference tokenizer over the same list (special tokens after merging)
            for x in CACHE_TEXTS + CUSTOM_TEXTS:
                hs_c = {freeze(ser_token(t)) for t in tk.extract_tokens(x)}
                missing = [t for t in (ser_token(t) for t in T.Tokenizer(extractors=list(L)).extract_tokens(x)) if freeze(t) not in hs_c]
                if missing and in_domain(x):
                    res.append(("shared-cache-vs-reference", f"after building tokenizers {hist[: step + 1]}, the Hyperscan tokenizer over list '{name}' misses the reference candidate {missing[0]['kind']} {missing[0]['data']!r} in {x!r}"))
                    break
            if res:
                break
            if got != want:
                i = next(i for i, (a, b) in enumerate(zip(got, want)) if a != b)
                res.append(("shared-cache-tokens-differ", f"after building tokenizers {hist[: step + 1]} on one cache directory, the last one tokenizes {CACHE_TEXTS[i]!r} differently from a cache-less tokenizer over the same list"))
                break
    finally:
        shutil.rmtree(d, ignore_errors=True)
    return res


def fault_list(valid, tier):
    """Deterministic list of (description, bytes or None)."""
    N = len(valid)
    out = [("absent", None), ("empty", b""), ("valid", valid), ("appended-1", valid + b"\x00"), ("appended-4k", valid + b"\xff" * 4096), ("garbage", bytes((i * 7 + 3) % 256 for i in range(N))), ("zeros", b"\x00" * N)]
    if tier == "quick":
        lens = sorted(set(list(range(0, 128)) + list(range(128, N, 64)) + list(range(max(N - 128, 0), N))))
    else:
        lens = range(0, N)
    for L in lens:
        out.append((f"truncate-{L}", valid[:L]))
    for pos in range(0, 40):
        for val in range(256):
            if val != valid[pos]:
                out.append((f"header-{pos}={val}", valid[:pos] + bytes([val]) + valid[pos + 1 :]))
    stepw = 8 if tier == "thorough" else 64
    for pos in range(40, N, stepw):
        bit = (pos // stepw) % 8
        out.append((f"bitflip-{pos}.{bit}", valid[:pos] + bytes([valid[pos] ^ (1 << bit)]) + valid[pos + 1 :]))
    nb = (N + 4095) // 4096
    blocks = list(range(nb))
    for k in (1, 2):
        for sub in itertools.combinations(blocks, k):
            b = bytearray(valid)
            for i in sub:
                b[i * 4096 : (i + 1) * 4096] = b"\x00" * len(b[i * 4096 : (i + 1) * 4096])
            out.append((f"zero-blocks-{sub}", bytes(b)))
    return out


def replay(case):
    setup("replay", 0)
    if case["part"] == "shared":
        return [{"msg": f"{lab}: {det}", "label": lab} for lab, det in run_shared(case["hist"])]
    if case["part"] == "crash":
        G["baseline"] = baseline_tokens()
        res, _, _ = run_crash(case["limit"])
    elif case["part"] == "cache":
        os.makedirs(VERIF / ".work", exist_ok=True)
        d = tempfile.mkdtemp(prefix="c14-", dir=str(VERIF / ".work"))
        try:
            path, valid = fresh_cache(d)
            G["baseline"] = baseline_tokens()
            if case["fault"] == "rewrite":
                content = valid
            else:
                content = dict(fault_list(valid, case.get("tier", "quick"))).get(case["fault"], valid)
            res = run_fault(d, path, content)
        finally:
            shutil.rmtree(d, ignore_errors=True)
    else:
        res, _ = check_text(case["text"], case["ref"])
    return [{"msg": f"{lab}: {det} :: {case}", "label": lab} for lab, det in res]


def shards(tier, seed):
    out = []
    for r in range(64):
        out.append({"part": "matrix", "r": r, "n": 64, "nlen": 1 if tier == "quick" else 2})
    for r in range(32):
        out.append({"part": "punct", "r": r, "n": 32, "tier": tier})
    for sh in docspace.shards_for(A14, DEPTH[tier], 1):
        out.append({"part": "docs", "depth": DEPTH[tier], **sh})
    for r in range(32):
        out.append({"part": "cache", "r": r, "n": 32, "tier": tier})
    for r in range(16):
        out.append({"part": "crash", "r": r, "n": 16, "tier": tier})
    for r in range(8):
        out.append({"part": "shared", "r": r, "n": 8, "maxlen": 2 if tier == "quick" else 3})
    for r in range(32):
        out.append({"part": "bytes", "r": r, "n": 32, "stride": 160 if tier == "quick" else 40})
    return out


def run_shard(sh):
    st = Stats()
    p = st.part(sh["part"])

    def record(case, key, res, nt, prefix):
        st.evaluations += 1
        st.traces += 1
        st.transitions += 1
        p["evaluations"] += 1
        st.states.add(key)
        if nt:
            st.nontrivial.add(key)
            if not st.samples:
                st.sample(case)
        st.outcomes.add(h64([nt, [r[0] for r in res]]))
        for lab, det in res:
            st.violation(case, f"{lab}: {det}", label=f"{prefix}-{lab}")

    if sh["part"] == "matrix":
        neigh = NEIGH_QUICK if sh["nlen"] == 1 else NEIGH + [a + b for a in NEIGH_QUICK[1:] for b in NEIGH_QUICK[1:]]
        ex = T.EXTRACTORS
        for i in range(sh["r"], len(ex), sh["n"]):
            w = witness(ex[i])
            if w is None or not in_domain(w):
                p["no_witness"] = p.get("no_witness", 0) + 1
                continue
            for left in neigh:
                for right in neigh:
                    text = left + w + right
                    res, nref = check_text(text, "AC", citations=False)
                    record({"part": "matrix", "text": text, "ref": "AC", "extractor": i}, h64(text), res, nref > 0, "matrix")
            # the same witness with a placeholder page and/or before the final newline (both make Hyperscan report
            # one pattern more than once for one span)
            variants = {w + "\n", "x " + w + "\n"}
            wp = re.sub(r"\d+$", "___", w)
            if wp != w and ex[i].compiled_regex.fullmatch(wp):
                variants |= {wp, wp + "\n", "“" + wp + " (1788)”"}
            for text in sorted(variants):
                res, nref = check_text(text, "AC", citations=False)
                record({"part": "matrix", "text": text, "ref": "AC", "extractor": i}, h64(text), res, nref > 0, "matrix")
        return st
    if sh["part"] == "shared":
        hists = [list(h) for k in range(1, sh["maxlen"] + 1) for h in itertools.product(SHARED_LISTS, repeat=k)]
        for hist in hists[sh["r"] :: sh["n"]]:
            res = run_shared(hist)
            record({"part": "shared", "hist": hist}, h64(["shared", hist]), res, len(hist) > 1, "shared")
        return st
    if sh["part"] == "punct":
        # tokens that absorb surrounding punctuation through a character class (id., supra, stop words, section marks):
        # every run of <= 3 ASCII / multi-byte punctuation marks on each side (the byte length of a run differs from its
        # character length, which matters as soon as a pattern counts)
        from eyecite.regexes import STOP_WORDS

        words = ["Id.", "id.,", "Ibid.", "supra", "§", "§§"] + sorted(STOP_WORDS)
        marks = ["“", "’", "(", ","] if sh["tier"] == "quick" else ["“", "’", "(", ",", "é", "—"]
        runs = [""] + ["".join(t) for k in (1, 2, 3) for t in itertools.product(marks, repeat=k)]
        if sh["tier"] != "quick":
            runs += [m * k for m in marks for k in (4, 5, 8)]
        pairs = [(w, a) for w in words for a in runs]
        for w, left in pairs[sh["r"] :: sh["n"]]:
            for right in runs:
                text = "x " + left + w + right + " y"
                res, nref = check_text(text, "AC", citations=False)
                record({"part": "punct", "text": text, "ref": "AC"}, h64("P" + text), res, nref > 0, "punct")
        return st
    if sh["part"] == "bytes":
        ex = T.EXTRACTORS
        idxs = sorted(set(range(0, len(ex), sh["stride"])) | set(range(len(ex) - 5, len(ex))))
        chars = byte_cover_chars()
        for i in idxs[sh["r"] :: sh["n"]]:
            w = witness(ex[i])
            if w is None or not in_domain(w):
                continue
            for c in chars:
                for text in (c + w, w + c, c + w + c, "x" + c + " " + w + " " + c):
                    res, nref = check_text(text, "AC", citations=False)
                    record({"part": "bytes", "text": text, "ref": "AC", "extractor": i}, h64(text), res, nref > 0, "bytes")
        return st
    if sh["part"] == "docs":
        seen = set()
        for idx, text in docspace.walk(A14, sh["depth"], sh):
            if text in seen or not in_domain(text):
                continue
            seen.add(text)
            res, nref = check_text(text, "REF")
            record({"part": "docs", "text": text, "ref": "REF"}, h64("D" + text), res, nref > 0, "docs")
        return st
    if sh["part"] == "crash":
        os.makedirs(VERIF / ".work", exist_ok=True)
        d0 = tempfile.mkdtemp(prefix="c14-", dir=str(VERIF / ".work"))
        try:
            _, valid = fresh_cache(d0)
        finally:
            shutil.rmtree(d0, ignore_errors=True)
        G["baseline"] = baseline_tokens()
        for limit in crash_points(len(valid), sh["tier"])[sh["r"] :: sh["n"]]:
            res, left, killed = run_crash(limit)
            p["writer_killed"] = p.get("writer_killed", 0) + int(killed)
            record({"part": "crash", "limit": limit}, h64(["crash", limit]), res, killed, "crash")
            st.outcomes.add(h64(left))
        return st
    os.makedirs(VERIF / ".work", exist_ok=True)
    d = tempfile.mkdtemp(prefix="c14-", dir=str(VERIF / ".work"))
    try:
        path, valid = fresh_cache(d)
        G["baseline"] = baseline_tokens()
        faults = fault_list(valid, sh["tier"])
        if sh["r"] == 0:
            faults = faults + [("rewrite", valid), ("rewrite", valid)]
            # idempotence: a cache written by the same code a second time is byte-identical
            os.unlink(path)
            p2, valid2 = fresh_cache(d)
            st.extra["cache_rewrite_identical"] = int(valid2 == valid)
            st.extra["cache_size"] = len(valid)
        for name, content in faults[sh["r"] :: sh["n"]] if sh["r"] else faults[0 :: sh["n"]] + faults[-2:]:
            res = run_fault(d, path, content)
            record({"part": "cache", "fault": name, "tier": sh["tier"]}, h64(["cache", name]), res, name != "valid", "cache")
    finally:
        shutil.rmtree(d, ignore_errors=True)
    return st
