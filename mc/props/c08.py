"""C08 - Resolution is online: later citations never change earlier groupings."""
from mc.props import rcommon

ID = "C08"
TITLE = "Resolution is online: later citations never change earlier groupings"
TECHNIQUE = (
    "explicit-state model checking of the real resolve_citations: all event sequences <= L over a 55-symbol citation-kind "
    "alphabet + BFS over canonical resolver states to fix-point (canon soundness checked) + extracted lists; oracle: resolve(prefix) == resolve(whole) restricted to the prefix for every parent/child pair of the enumeration tree (covers all prefixes by transitivity) and causality (non-full members follow their full citation)"
)
TECHNIQUE += "; also: long lists (a short head followed by 100-520 filler citations), every shorter prefix and the whole list re-resolved on the same objects, an oracle that normalises reporters from reporters-db (spelling, edition dates) rather than from the code's guess; sequences <= 3 over the core alphabet again under python -O"
RULE = rcommon.rule(ID)
ASSUMPTIONS = rcommon.ASSUMPTIONS
setup = rcommon.setup
bounds = rcommon.bounds
shards = rcommon.shards
opt_shards = rcommon.opt_shards


def run_shard(sh):
    return rcommon.run_shard(sh, ID)


def replay(case):
    return rcommon.replay(case, ID)
