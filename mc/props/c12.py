"""C12 - the token stream partitions the text.

Part 'seam'  : every list of <= n candidate tokens (6 kinds x all spans of a short text) is fed
               to the REAL Tokenizer.tokenize through an overridden extract_tokens (narrow seam):
               sorting, merging, overlap skipping, nominative pop and text splitting are explored
               exhaustively, independent of which regexes happen to produce such candidates.
Part 'docs'  : every document of D(A12, k) x {AC, HS, REF}.
"""

from __future__ import annotations

import itertools

from mc import docspace
from mc.ey import M, T, short_exc, tokenizer
from mc.kernel import Stats, h64

ID = "C12"
TITLE = "The token stream partitions the text"
TECHNIQUE = (
    "bounded-exhaustive exploration of the real tokenize(): all candidate-token layouts through a "
    "narrow seam + all fragment documents up to depth k, three tokenizers"
)
TECHNIQUE += "; " + 'also: transform-sensitive fragments, CRLF documents beyond 64 KiB / 128 KiB; the narrow seam again under python -O'
RULE = (
    "seam: all lists of <=n candidate tokens over all spans of a fixed short text; docs: all "
    "concatenations of <=k fragments of alphabet A12. Non-trivial = a layout with >=2 candidates of "
    "which two overlap or abut, or a document whose token stream has >=2 special tokens. "
    "distinct = distinct (text, candidate list) / distinct (tokenizer, text)."
)
ASSUMPTIONS = [
    "candidate tokens obey Token.from_match's contract (data == text[start:end], start < end)",
    "alphabets are finite: interactions needing more fragments / candidates than the bound are not covered",
    "Hyperscan database compiled from the working tree's extractors without cache",
]

A12 = docspace.A0 + [
    "1 F. 2",
    "1 F. Supp. 2",
    "1 F. Supp. 2d 3",
    "a§b",
    "§§",
    "see id. at 3",
    "v. supra",
    "Id., at 4",
    "supra, ",
    "  ",
]

KINDS = ["nom", "cit", "cit2", "short", "stop", "id"]
SEAM_TEXTS = {
    "quick": [("ab cd ef", 2), (" a  b", 3)],
    "thorough": [("ab cd ef", 2), (" a  b ", 3), ("ab cd", 3), ("a b c", 3)],
}
DOC_DEPTH = {"quick": {"AC": 3, "HS": 3, "REF": 2}, "thorough": {"AC": 4, "HS": 4, "REF": 3}}

_ED = {}


def setup(tier, seed):
    _ED["nom"] = T.EDITIONS_LOOKUP["Thompson"][0]
    _ED["us"] = T.EDITIONS_LOOKUP["U.S."][0]
    _ED["f2"] = T.EDITIONS_LOOKUP["F.2d"][0]
    if tier != "replay":
        tokenizer("HS")
        tokenizer("REF")


def bounds(tier):
    return {
        "seam_texts_and_max_candidates": SEAM_TEXTS[tier],
        "candidate_kinds": KINDS,
        "doc_alphabet_size": len(A12),
        "doc_depth_per_tokenizer": DOC_DEPTH[tier],
    }


def mk(text, kind, s, e):
    d = text[s:e]
    if kind == "nom":
        return M.CitationToken(d, s, e, groups={"k": "n"}, exact_editions=(_ED["nom"],))
    if kind == "cit":
        return M.CitationToken(d, s, e, groups={"k": "c"}, exact_editions=(_ED["us"],))
    if kind == "cit2":  # same groups as 'cit' -> mergeable when spans coincide
        return M.CitationToken(d, s, e, groups={"k": "c"}, exact_editions=(_ED["f2"],))
    if kind == "short":
        return M.CitationToken(d, s, e, groups={"k": "c"}, exact_editions=(_ED["us"],), short=True)
    if kind == "stop":
        return M.StopWordToken(d, s, e, groups={"stop_word": "v"})
    if kind == "id":
        return M.IdToken(d, s, e)
    raise KeyError(kind)


class SeamTokenizer(T.Tokenizer):
    def __init__(self, text, cands):
        self.cands = cands
        self.text = text
        self.extractors = []

    def extract_tokens(self, text):
        for k, s, e in self.cands:
            yield mk(self.text, k, s, e)


def oracle(text, toks, ct):
    """Return list of (label, detail)."""
    out = []
    joined = "".join(str(t) for t in toks)
    if joined != text:
        out.append(("partition", f"tokens concatenate to {joined!r}, text is {text!r}"))
    last = 0
    for i, t in ct:
        if not isinstance(t, M.Token):
            out.append(("index-type", f"citation_tokens entry {i} is not a Token"))
            continue
        if i >= len(toks) or toks[i] is not t:
            out.append(("index", f"index {i} does not point at token {str(t)!r}"))
        if not (0 <= t.start <= t.end <= len(text)) or text[t.start : t.end] != str(t):
            out.append(("offset", f"text[{t.start}:{t.end}]={text[t.start:t.end]!r} != token {str(t)!r}"))
        if t.start < last:
            out.append(("order", f"token {str(t)!r} at {t.start} starts before previous end {last}"))
        last = t.end
    specials = [t for t in toks if isinstance(t, M.Token)]
    if len(specials) != len(ct) or any(a is not b[1] for a, b in zip(specials, ct)):
        out.append(("index-exact", f"{len(specials)} special tokens in stream, {len(ct)} in index list"))
    return out


def check_seam(case):
    text, cands = case["text"], [tuple(c) for c in case["cands"]]
    try:
        toks, ct = SeamTokenizer(text, cands).tokenize(text)
    except Exception as e:  # noqa: BLE001
        return [("raise", short_exc(e))], None
    return oracle(text, toks, ct), (toks, ct)


_PREV = {}


def check_doc(case):
    text = case["text"]
    tk = tokenizer(case["tok"])
    try:
        toks, ct = tk.tokenize(text)
    except Exception as e:  # noqa: BLE001
        return [("raise", short_exc(e))], None
    res = oracle(text, toks, ct)
    # the result returned by the PREVIOUS call on this tokenizer (still held by its caller) must be unchanged by this call
    prev = _PREV.get(case["tok"])
    if prev is not None and not res:
        ptext, ptoks, pct, psnap = prev
        if [str(t) for t in ptoks] != psnap[0] or [(i, str(t)) for i, t in pct] != psnap[1]:
            res = res + [("earlier-result-changed", f"the token lists returned for {ptext!r} were modified by the later call for {text!r}")]
    _PREV[case["tok"]] = (text, toks, ct, ([str(t) for t in toks], [(i, str(t)) for i, t in ct]))
    return res, (toks, ct)


def replay(case):
    res, _ = check_seam(case) if case["part"] == "seam" else check_doc(case)
    return [{"msg": f"{lab}: {det} :: case={case!r}", "label": f"{case['part']}-{lab}"} for lab, det in res]


def shards(tier, seed):
    out = []
    for text, n in SEAM_TEXTS[tier]:
        N = len(text)
        spans = [(s, e) for s in range(N) for e in range(s + 1, N + 1)]
        out.append({"part": "seam", "text": text, "n": n, "first": None})
        for k in KINDS:
            for s, e in spans:
                out.append({"part": "seam", "text": text, "n": n, "first": [k, s, e]})
    for tok, depth in DOC_DEPTH[tier].items():
        for sh in docspace.shards_for(A12, depth, 1 if depth <= 3 else 2):
            out.append({"part": "docs", "tok": tok, "depth": depth, **sh})
        for r in range(8):
            out.append({"part": "docs", "tok": tok, "depth": 3 if tok != "REF" else 2, "ts": True, "r": r, "n": 8})
        if tok != "REF":
            for r in range(8):
                out.append({"part": "docs", "tok": tok, "depth": 1, "big": True, "r": r, "n": 8})
    return out


def opt_shards(tier):
    """Under python -O: the whole narrow seam with <= 2 candidates and the transform-sensitive documents (default tokenizer)."""
    text, n = "ab cd ef", 2
    N = len(text)
    out = [{"part": "seam", "text": text, "n": n, "first": None}]
    for k in KINDS:
        for s in range(N):
            for e in range(s + 1, N + 1):
                out.append({"part": "seam", "text": text, "n": n, "first": [k, s, e]})
    out += [{"part": "docs", "tok": "AC", "depth": 3, "ts": True, "r": r, "n": 4} for r in range(4)]
    out += [{"part": "docs", "tok": "AC", "depth": 2, **sh} for sh in docspace.shards_for(A12, 2, 1)]
    return out


BIG_FILLERS = [" x\r\n", "\r\n", " Id. at 5.\r\n", "\n", " hello", " 1 U.S. 1;\r\n", "\u00a0\n"]
BIG_SIZES = [70000, 140000]  # beyond 64 KiB and beyond 100,000 / 128 KiB


def big_documents():
    """One fragment, then one filler repeated up to > 64 KiB and > 128 KiB, then the fragment again (CRLF line ends included)."""
    for f in BIG_FILLERS:
        for size in BIG_SIZES:
            body = f * (size // len(f) + 1)
            for a in ["", "1 U.S. 1", "Id. at 5", "Foo, supra", "§ 3", "See ", "394 U. S. 618"]:
                yield a + body + a


def _overlap_or_abut(cands):
    for (k1, s1, e1), (k2, s2, e2) in itertools.combinations(cands, 2):
        if max(s1, s2) <= min(e1, e2):
            return True
    return False


def run_shard(sh):
    st = Stats()
    if sh["part"] == "seam":
        text, n = sh["text"], sh["n"]
        N = len(text)
        spans = [(s, e) for s in range(N) for e in range(s + 1, N + 1)]
        cand = [(k, s, e) for k in KINDS for (s, e) in spans]
        p = st.part("seam")
        if sh["first"] is None:
            lists = [()]
        else:
            first = tuple(sh["first"])
            lists = (
                (first,) + rest for m in range(0, n) for rest in itertools.product(cand, repeat=m)
            )
        for cs in lists:
            case = {"part": "seam", "text": text, "cands": [list(c) for c in cs]}
            res, out = check_seam(case)
            st.evaluations += 1
            st.traces += 1
            st.transitions += len(cs) + 1
            p["evaluations"] += 1
            key = h64([text, cs])
            st.states.add(key)
            if len(cs) >= 2 and _overlap_or_abut(cs):
                st.nontrivial.add(key)
            if out is not None:
                st.outcomes.add(h64([type(t).__name__ + str(getattr(t, "start", "")) for t in out[0]]))
            for lab, det in res:
                st.violation(case, f"{lab}: {det} :: text={text!r} candidates={cs!r}", label=f"seam-{lab}")
            if len(cs) == n and not st.samples and _overlap_or_abut(cs):
                st.sample({"part": "seam", "text": text, "candidates": [list(c) for c in cs]})
        return st
    tok, depth = sh["tok"], sh["depth"]
    p = st.part("docs-" + tok)
    seen = set()
    if sh.get("big"):
        walker = ((None, t) for t in itertools.islice(big_documents(), sh["r"], None, sh["n"]))
    elif sh.get("ts"):
        walker = ((None, t) for t in itertools.islice(docspace.ts_documents(depth), sh["r"], None, sh["n"]))
    else:
        walker = docspace.walk(A12, depth, sh)
    for idx, text in walker:
        st.transitions += 1
        if text in seen:
            continue
        seen.add(text)
        case = {"part": "docs", "tok": tok, "text": text}
        res, out = check_doc(case)
        st.evaluations += 1
        st.traces += 1
        p["evaluations"] += 1
        key = h64(tok + "\0" + text)
        st.states.add(key)
        if out is not None:
            if len(out[1]) >= 2:
                st.nontrivial.add(key)
            st.outcomes.add(h64([type(t).__name__ for _, t in out[1]]))
        for lab, det in res:
            st.violation(case, f"{lab}: {det} :: tokenizer={tok} text={text!r}", label=f"docs-{lab}")
        if idx is not None and len(idx) == depth and not st.samples and out is not None and len(out[1]) >= 2:
            st.sample({"part": "docs", "tokenizer": tok, "text": text})
    return st
