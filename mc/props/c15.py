"""C15 - extraction is a pure function of its input.

setorder : E5 seam. `set` is shadowed in eyecite's module namespaces by a subclass whose iteration order
           is chosen by the explorer: every set iterated during extraction is driven through all
           permutations (n <= 5) or identity/reversal/every move-to-front/every move-to-back (n > 5),
           with <= 1 (quick) / <= 2 (thorough) deviating iterations per execution.
seeds    : seam validation - the same corpus serialised in fresh subprocesses under several
           PYTHONHASHSEED values and diffed (also catches set literals/comprehensions the seam cannot see).
histories: E3 - every call history of <= 3 calls over 9 operations, each history in a freshly forked
           process (cold lazy state), for the shared default tokenizer and a shared Hyperscan instance.
threads  : E4 - 2 threads x 1 call each sharing the default tokenizer, every schedule with <= k
           preemptions at line granularity (opcode granularity inside tokenizers.py/models.py).
freerun  : supplementary free-running OS threads (not the deciding step).
"""

from __future__ import annotations

import itertools
import json
import os
import pickle
import subprocess
import sys
import threading

os.environ["VERIF_SHADOW_SET"] = "1"  # mc.ey then imports eyecite with `set` shadowed (import-time sets too)

from mc import docspace, sched  # noqa: E402
from mc.ey import M, T, get_citations, ser, short_exc, tokenizer  # noqa: E402
from mc.kernel import Stats, VERIF, h64

ID = "C15"
TITLE = "Extraction is a pure function of its input"
TECHNIQUE = (
    "model checking of the implementation under controlled nondeterminism: exhaustive set-iteration orders through a "
    "namespace seam, every call history <= 3 in fresh forks, every 2-thread schedule within a preemption bound under a "
    "settrace-based cooperative scheduler; hash seeds cross-checked in fresh subprocesses"
)
TECHNIQUE += "; " + 'also: generated families of pairwise colliding operations, calls through a second tokenizer, special-list names as the first input of a fresh process'
RULE = (
    "setorder: corpus = all documents of <= 2 fragments of A1 (tie-rich) + every reporter string on which two extractors match "
    "the same span; per document every iteration of a controlled set x every order of the order menu; histories: all "
    "sequences of <= 3 operations over 9 operations x 2 tokenizers, plus all ordered pairs inside two generated families of "
    "pairwise colliding operations (same names in other roles, same markup under other steps, same text under other options); threads: all schedules within the preemption bound of "
    "2-thread harnesses over colliding texts with cold lazy state. distinct = distinct (text, order plan) / history / schedule; "
    "non-trivial = an execution that deviates from the default order / has >= 2 calls / has >= 1 context switch."
)
ASSUMPTIONS = [
    "set iteration is intercepted for set(...) calls in eyecite's own modules; set literals/comprehensions and C-level iteration are covered by the PYTHONHASHSEED subprocess diff only",
    "thread interleavings are explored at Python line (and opcode) granularity under the GIL; C extension calls are atomic; free-threaded builds are not covered",
    "the clock does not cross New Year during a run",
    "a freshly forked child of a parent that has never run extraction stands for a fresh process (lazy caches are cold)",
]

A1 = docspace.A0[:24] + ["supra,§,", "1 CCH Unemployment Ins. Rep. 1", "v.§§", "AFF'D§ 3", "supra§", "1 Wash. 2d 3", "Id.§", "Marvin v. Marvin, 18 Cal. 3d 660 (1976). ", "Marvin at 670", "<i>Marvin</i>"]
SEAM_MODULES = ["tokenizers", "models", "find", "resolve", "helpers", "utils", "annotate", "clean"]
OPS = [
    ("t1", {"text": "Foo v. Bar, 1 U.S. 1 (1999). Id. at 5. supra,§,"}),
    ("t2", {"text": "See 1 U.S. 1, 2 F.2d 2 (1999); Bar, 1 U.S. at 5."}),
    ("t3", {"text": "1 CCH Unemployment Ins. Rep. 1; Foo, supra, at 3."}),
    ("joke", {"text": "eyecite"}),
    ("markup", {"markup": "<p><i>Foo v. Bar</i>, 1 U.S. 1 (1999). In <i>Bar</i> we held.</p>"}),
    ("ra", {"text": "Foo v. Bar, 1 Wash. 2d 3. 1 Marsh. 2", "remove_ambiguous": True}),
    # the same inputs again with other options: state keyed on the text alone would leak between them
    ("t1ra", {"text": "Foo v. Bar, 1 U.S. 1 (1999). Id. at 5. supra,§,", "remove_ambiguous": True}),
    ("markup2", {"markup": "<p><i>Foo v. Bar</i>, 1 U.S. 1 (1999). In <i>Bar</i> we held.</p>", "steps": ["html"]}),
    ("t4", {"text": "Adarand v. Pena, 515 U.S. ___ (1995). Adarand, 515 U.S., at ___. See 1 F.2d at ___."}),
    # 'html' not first in the caller's list (the list object itself must come back untouched)
    ("names", {"text": "In Johnson v. Texas, 410 U.S. 113, 115 (1973), and State v. Holder, 2 F.2d 2 (1999). Johnson at 120; Texas at 7; Holder at 9; State at 5."}),
    ("other1", {"text": "Foo v. Bar, 1 U.S. 1 (1999). 1 T.C. at 15.", "other_tokenizer": "noshort"}),
    ("tc", {"text": "See 1 T.C. at 15; 1 Hughes (1877) 12; 1 H. 1."}),
    ("markup3", {"markup": "<p><i>Foo v. Bar</i>, 1 U.S. 1 (1999). In <i>Bar</i> we held.</p>", "steps": ["inline_whitespace", "html", "all_whitespace"]}),
]
# Generated families of operations that collide pairwise on part of their input (same party names in other roles, same
# markup under other cleaning steps, same text under another option, same reporter string under another year): all ORDERED
# PAIRS inside a family are executed as two-call histories. A cache keyed on a part of the input leaks between them.
_NAMES = ["Smithers", "State", "Jones"]
FAMILIES = {"mk": [], "pl": []}
for _p in _NAMES:
    for _d in _NAMES:
        if _p == _d:
            continue
        for _steps in (["html"], ["html", "all_whitespace"]):
            FAMILIES["mk"].append((f"mk-{_p}-{_d}-{len(_steps)}", {"markup": f"<p><em>{_p} v. {_d}</em>, 1 U.S. 1 (1999).\n  In <em>{_p}</em> and in <em>{_d}</em> we held.</p>", "steps": _steps}))
        for _rep, _yr in (("U.S.", "1999"), ("Wash. 2d", "1950")):
            FAMILIES["pl"].append((f"pl-{_p}-{_d}-{_rep}", {"text": f"{_p} v. {_d}, 1 {_rep} 1 (Wyo. {_yr}). See {_p} at 5; {_d}, supra, at 3; 1 {_rep} at 7."}))
FAMILIES["pl"] += [
    ("pl-ra", {"text": "Smithers v. State, 1 Wash. 2d 1 (Wyo. 1950). See Smithers at 5; State, supra, at 3; 1 Wash. 2d at 7.", "remove_ambiguous": True}),
    ("pl-yr", {"text": "Smithers v. State, 1 Wash. 2d 1 (Wyo. 1870). See Smithers at 5; State, supra, at 3; 1 Wash. 2d at 7."}),
    ("pl-ct", {"text": "Smithers v. State, 1 Wash. 2d 1 (Wash. 1950). See Smithers at 5; State, supra, at 3; 1 Wash. 2d at 7."}),
    ("pl-ws", {"text": "Smithers v. State,  1 Wash. 2d 1 (Wyo. 1950).\nSee Smithers at 5; State, supra, at 3; 1 Wash. 2d at 7."}),
]
# laws / journals that reporters-db lists under one key for several publishers (distinct editions sharing a short name): the
# example citations of every such key, pairwise (a memo keyed on the name alone would leak between them); plus reporters
# whose short name belongs to several editions
def _multi_source_family():
    from reporters_db import JOURNALS, LAWS, REPORTERS

    out = []
    for db in (LAWS, JOURNALS, REPORTERS):
        for key in sorted(db):
            exs = [s.get("examples", [])[:1] for s in db[key]]
            exs = [e[0] for e in exs if e]
            if len(exs) >= 2 and len(out) < 12:
                for j, ex in enumerate(exs[:3]):
                    out.append((f"ms-{len(out)}", {"text": f"See {ex}; and {ex} again."}))
    return out


FAMILIES["ms"] = _multi_source_family()
ALL_OPS = dict(OPS)
for _fam in FAMILIES.values():
    ALL_OPS.update(dict(_fam))
THREAD_HARNESSES = [
    ("Foo v. Bar, 1 U.S. 1. Id.", "See 2 U.S. 2, 3."),
    ("1 U.S. 1", "1 U.S. 1"),
    ("Foo, supra, at 3.", "Id. at 5. § 2"),
    ("Foo v. Bar, 1 P.3d 1, 5 (Wyo. 2001)", "X v. Y, 2 P.3d 2 (Wyo. 2002)"),
]
# (granularity, preemption bound, visits): each source line (opcode) is a preemption point for its first
# `visits` executions per thread, which bounds the points contributed by long loops
THREAD_CONFIGS = {
    "quick": [("line", 1, 3)],
    "thorough": [("line", 1, 8), ("line", 2, 1), ("opcode", 1, 1)],
}

from mc.seam import CTX, CSet, _EX_INDEX, apply_order, order_menu  # noqa: E402,F401


def install_seam():
    import importlib

    for i, e in enumerate(T.EXTRACTORS):
        _EX_INDEX[id(e)] = i
    for m in SEAM_MODULES:
        mod = importlib.import_module(f"eyecite.{m}")
        mod.set = CSet


def run_op(op, tok="AC"):
    tk = tokenizer(tok)
    if op.get("other_tokenizer"):
        # the same public call through a freshly built tokenizer over a sub-list of the shared extractor objects
        sub = [e for e in T.EXTRACTORS if not e.extra.get("short")] if op["other_tokenizer"] == "noshort" else list(T.EXTRACTORS[::2])
        tk = T.AhocorasickTokenizer(extractors=sub)
    if "markup" in op:
        steps = list(op.get("steps", ["html", "all_whitespace"]))
        before = list(steps)
        cits = get_citations(markup_text=op["markup"], clean_steps=steps, tokenizer=tk)
        if steps != before:
            raise RuntimeError(f"the caller's clean_steps list was modified: {before} -> {steps}")
    else:
        cits = get_citations(op["text"], remove_ambiguous=op.get("remove_ambiguous", False), tokenizer=tk)
    return cits


def sers(cits):
    return [ser(c, hashes=True) for c in cits]


def setup(tier, seed):
    install_seam()
    if tier == "replay":
        return
    # Thread schedules first, while this process has never run an extraction: every execution runs in a
    # freshly forked child, so ALL lazily built state (known or not) is cold for every schedule.
    G["thread_stats"] = explore_threads_cold(tier)
    tokenizer("HS")
    status, ties = in_fork(compute_ties)
    G["ties"] = ties if status == "ok" else []


def compute_ties():
    # tie-rich reporter strings, found mechanically
    ties = []
    ac = tokenizer("AC")
    for rep in sorted(T.EDITIONS_LOOKUP):
        text = f"12 {rep} 345"
        spans = {}
        for t in ac.extract_tokens(text):
            spans.setdefault((t.start, t.end), []).append(t)
        for lst in spans.values():
            if len(lst) > 1 and any(
                type(a) is not type(b) or a.groups != b.groups or getattr(a, "short", None) != getattr(b, "short", None)
                for a, b in itertools.combinations(lst, 2)
            ):
                ties.append(text)
                break
    return ties


G = {}


def bounds(tier):
    return {"setorder_alphabet": len(A1), "setorder_depth": 2, "tie_strings": len(G.get("ties", [])), "max_deviating_iterations": 1 if tier == "quick" else 2, "hash_seeds": 4 if tier == "quick" else 32, "history_len": 3, "operations": [o[0] for o in OPS], "thread_harnesses": len(THREAD_HARNESSES), "thread_configs_(granularity,preemption_bound,visits_per_line)": THREAD_CONFIGS[tier]}


# ---- setorder -----------------------------------------------------------------------------------


def run_with_plan(text, plan):
    CTX["plan"] = {int(k): (tuple(v) if not isinstance(v, tuple) else v) for k, v in plan.items()}
    CTX["log"] = []
    CTX["active"] = True
    try:
        out = sers(get_citations(text))
    except Exception as e:  # noqa: BLE001
        out = ("exc", short_exc(e))
    finally:
        CTX["active"] = False
    return out, list(CTX["log"])


def check_setorder(text, plan):
    base, _ = run_with_plan(text, {})
    got, _ = run_with_plan(text, plan)
    if got != base:
        d = diff_brief(base, got)
        return [("set-order", f"result depends on set iteration order (plan {plan}): {d}")]
    return []


def diff_brief(a, b):
    if isinstance(a, tuple) or isinstance(b, tuple):
        return f"{a!r:.200} vs {b!r:.200}"
    for x, y in itertools.zip_longest(a, b):
        if x != y:
            if x is None or y is None:
                return f"{x!r:.300} vs {y!r:.300}"
            keys = [k for k in x if x.get(k) != y.get(k)]
            return f"{x.get('kind')}@{x.get('span')} differs in {keys}: " + "; ".join(f"{k}: {x.get(k)!r:.120} vs {y.get(k)!r:.120}" for k in keys[:3])
    return "?"


def setorder_texts(sh):
    if sh["src"] == "ties":
        return G["ties"][sh["r"] :: sh["n"]]
    out = []
    seen = set()
    for idx, text in docspace.walk(A1, 2, sh):
        if text not in seen:
            seen.add(text)
            out.append(text)
    return out


def run_setorder(st, sh):
    p = st.part("setorder")
    maxdev = sh["maxdev"]
    for text in setorder_texts(sh):
        base, log = run_with_plan(text, {})
        calls = [(j, n) for j, n in enumerate(log) if n > 1]
        plans = []
        for j, n in calls:
            for spec in order_menu(n):
                plans.append({j: spec})
        if maxdev >= 2:
            for (j1, n1), (j2, n2) in itertools.combinations(calls, 2):
                for s1 in order_menu(n1)[:: max(1, len(order_menu(n1)) // 6)]:
                    for s2 in order_menu(n2)[:: max(1, len(order_menu(n2)) // 6)]:
                        plans.append({j1: s1, j2: s2})
        st.evaluations += 1
        p["evaluations"] += 1
        st.states.add(h64(["so", text, None]))
        st.extra["controlled_iterations"] = st.extra.get("controlled_iterations", 0) + len(log)
        for plan in plans:
            got, _ = run_with_plan(text, plan)
            st.evaluations += 1
            st.traces += 1
            st.transitions += 1
            p["evaluations"] += 1
            key = h64(["so", text, plan])
            st.states.add(key)
            st.nontrivial.add(key)
            st.outcomes.add(h64(got))
            if not st.samples:
                st.sample({"part": "setorder", "text": text, "plan": {str(k): list(v) for k, v in plan.items()}, "set_sizes": log})
            if got != base:
                case = {"part": "setorder", "text": text, "plan": {str(k): list(v) for k, v in plan.items()}}
                st.violation(case, f"set-order: result depends on set iteration order (plan {plan}): {diff_brief(base, got)} :: text={text!r}", label="set-order")


# ---- seeds --------------------------------------------------------------------------------------

SEED_SCRIPT = r"""
import sys, json
sys.path.insert(0, %r)
from mc import docspace
from mc.ey import get_citations, ser
from mc.props import c15
texts = json.load(open(sys.argv[1]))
out = []
for t in texts:
    try:
        out.append([ser(c, hashes=True) for c in get_citations(t)])
    except Exception as e:
        out.append(["exc", type(e).__name__])
json.dump(out, open(sys.argv[2], "w"), default=repr)
"""


def corpus_texts():
    texts = list(G["ties"])
    seen = set(texts)
    for sh in docspace.shards_for(A1, 2, 1):
        for idx, text in docspace.walk(A1, 2, sh):
            if text not in seen:
                seen.add(text)
                texts.append(text)
    return texts


def run_seeds(st, sh):
    p = st.part("seeds")
    work = VERIF / ".work"
    os.makedirs(work, exist_ok=True)
    texts = corpus_texts()
    tag = f"{os.getpid()}"
    tin = work / f"c15-{tag}-texts.json"
    tin.write_text(json.dumps(texts))
    outs = {}
    procs = []
    try:
        for s in sh["seeds"]:
            tout = work / f"c15-{tag}-seed{s}.json"
            env = dict(os.environ, PYTHONHASHSEED=str(s), PYTHONDONTWRITEBYTECODE="1")
            procs.append((s, tout, subprocess.Popen(["/venv/bin/python", "-c", SEED_SCRIPT % str(VERIF), str(tin), str(tout)], env=env, stdout=subprocess.PIPE, stderr=subprocess.PIPE)))
        for s, tout, pr in procs:
            _, err = pr.communicate(timeout=1200)
            if pr.returncode != 0:
                st.extra.setdefault("harness_errors", []).append(f"seed subprocess {s} failed: {err.decode()[-400:]}")
                continue
            outs[s] = json.loads(tout.read_text())
    finally:
        for f in work.glob(f"c15-{tag}-*"):
            f.unlink()
    seeds = sorted(outs)
    if not seeds:
        return
    ref = outs[seeds[0]]
    for i, text in enumerate(texts):
        st.evaluations += len(seeds)
        st.traces += len(seeds)
        st.transitions += len(seeds)
        p["evaluations"] += len(seeds)
        key = h64(["seed", text])
        st.states.add(key)
        if ref[i]:
            st.nontrivial.add(key)
        for s in seeds[1:]:
            if outs[s][i] != ref[i]:
                case = {"part": "seeds", "text": text, "seeds": [seeds[0], s]}
                st.violation(case, f"hash-seed: result under PYTHONHASHSEED={s} differs from PYTHONHASHSEED={seeds[0]}: {diff_brief(ref[i], outs[s][i])} :: text={text!r}", label="hash-seed")
                break


def replay_seeds(case):
    work = VERIF / ".work"
    os.makedirs(work, exist_ok=True)
    tag = f"r{os.getpid()}"
    tin = work / f"c15-{tag}-texts.json"
    tin.write_text(json.dumps([case["text"]]))
    res = []
    try:
        for s in case["seeds"]:
            tout = work / f"c15-{tag}-seed{s}.json"
            env = dict(os.environ, PYTHONHASHSEED=str(s))
            subprocess.run(["/venv/bin/python", "-c", SEED_SCRIPT % str(VERIF), str(tin), str(tout)], env=env, check=True, capture_output=True)
            res.append(json.loads(tout.read_text())[0])
    finally:
        for f in work.glob(f"c15-{tag}-*"):
            f.unlink()
    if res[0] != res[1]:
        return [("hash-seed", f"results differ between PYTHONHASHSEED={case['seeds'][0]} and {case['seeds'][1]}: {diff_brief(res[0], res[1])}")]
    return []


# ---- histories ----------------------------------------------------------------------------------


def in_fork(fn):
    """Run fn() in a forked child (cold lazy state); return its pickled result."""
    r, w = os.pipe()
    pid = os.fork()
    if pid == 0:
        try:
            os.close(r)
            try:
                out = ("ok", fn())
            except BaseException as e:  # noqa: BLE001
                out = ("exc", short_exc(e))
            with os.fdopen(w, "wb") as f:
                pickle.dump(out, f)
        finally:
            os._exit(0)
    os.close(w)
    with os.fdopen(r, "rb") as f:
        data = f.read()
    os.waitpid(pid, 0)
    return pickle.loads(data) if data else ("exc", "child died")


def cold_all():
    for e in T.EXTRACTORS:
        e.__dict__.pop("_compiled_regex", None)


def history_body(hist, tok):
    def body():
        cold_all()
        results = []
        live = []
        for name in hist:
            op = ALL_OPS[name]
            cits = run_op(op, tok)
            live.append(cits)
            results.append(sers(cits))
        # earlier results re-serialised after later calls must be unchanged
        again = [sers(c) for c in live]
        return results, again

    return body


def check_history(hist, tok, baselines):
    status, out = in_fork(history_body(hist, tok))
    if status != "ok":
        return [("history-raise", f"history {hist} with {tok}: {out}")]
    results, again = out
    res = []
    for k, name in enumerate(hist):
        if results[k] != baselines[(tok, name)]:
            res.append(("history-dependent", f"call #{k} ({name}) after {hist[:k]} with {tok} differs from the same call in a fresh process: {diff_brief(baselines[(tok, name)], results[k])}"))
        if again[k] != results[k]:
            res.append(("result-mutated", f"result of call #{k} ({name}) changed after later calls {hist[k + 1:]} with {tok}: {diff_brief(results[k], again[k])}"))
    return res


def get_baselines(tok, ops=None):
    out = {}
    for name, op in ops or OPS:
        status, r = in_fork(lambda op=op: (cold_all(), sers(run_op(op, tok)))[1])
        out[(tok, name)] = r if status == "ok" else ("exc", r)
    return out


def run_histories(st, sh):
    p = st.part("histories")
    tok = sh["tok"]
    if sh.get("family"):
        fam = FAMILIES[sh["family"]]
        base = get_baselines(tok, fam)
        names = [o[0] for o in fam]
        hists = [list(h) for h in itertools.product(names, repeat=2)]
    else:
        base = get_baselines(tok)
        names = [o[0] for o in OPS]
        hists = [list(h) for k in (1, 2, 3) for h in itertools.product(names, repeat=k)]
    for hist in hists[sh["r"] :: sh["n"]]:
        res = check_history(hist, tok, base)
        st.evaluations += 1
        st.traces += 1
        st.transitions += len(hist)
        p["evaluations"] += 1
        key = h64(["hist", tok, hist])
        st.states.add(h64(["hist", tok, sorted(set(hist))]))
        if len(hist) >= 2:
            st.nontrivial.add(key)
            if not st.samples:
                st.sample({"part": "histories", "tokenizer": tok, "history": hist})
        st.outcomes.add(h64([r[0] for r in res]))
        for lab, det in res:
            st.violation({"part": "histories", "tok": tok, "hist": hist}, f"{lab}: {det}", label=lab)


# ---- threads ------------------------------------------------------------------------------------


def one_execution(h, gran, prefix, visits=3):
    texts = THREAD_HARNESSES[h]
    opfiles = ("tokenizers.py", "models.py") if gran == "opcode" else ()
    bodies = [lambda t=t: sers(get_citations(t)) for t in texts]
    return sched.Record(sched.Execution(bodies, prefix, opfiles, visits=visits).run())


def cold_execution(h, gran, prefix, visits=3):
    status, rec = in_fork(lambda: one_execution(h, gran, prefix, visits))
    if status != "ok":
        raise sched.Divergence(f"execution child failed: {rec}")
    return rec


def sequential_expected(h):
    status, out = in_fork(lambda: [sers(get_citations(t)) for t in THREAD_HARNESSES[h]])
    if status != "ok":
        raise sched.Divergence(f"sequential baseline failed: {out}")
    return out


def _thread_task(task):
    h, gran, bound, prefixes, expected, visits = task
    st = Stats()
    p = st.part(f"threads-{gran}-b{max(bound, 0) if bound >= 0 else 'root'}-v{visits}")
    texts = THREAD_HARNESSES[h]
    stats = {}

    def on_exec(x):
        st.evaluations += 1
        st.traces += 1
        p["evaluations"] += 1
        sw = sum(1 for c in x.choices if c != 0)
        key = h64([h, gran, visits, x.choices])
        st.states.add(key)
        st.transitions += len(x.points)
        if sw:
            st.nontrivial.add(key)
            if not st.samples:
                i = next(i for i, c in enumerate(x.choices) if c != 0)
                st.sample({"part": "threads", "harness": list(texts), "granularity": gran, "first_switch_at_point": i, "location": list(x.points[i][2]), "points": len(x.points)})
        got = [r[1] if r[0] == "ok" else r for r in x.results]
        st.outcomes.add(h64(got))
        if got != expected:
            k = next(i for i in range(len(got)) if got[i] != expected[i])
            det = got[k] if isinstance(got[k], tuple) else diff_brief(expected[k], got[k])
            sched_ = [i for i, c in enumerate(x.choices) if c != 0]
            case = {"part": "threads", "h": h, "gran": gran, "visits": visits, "choices": _compress(x.choices)}
            st.violation(case, f"thread-schedule: thread {k} ({texts[k]!r}) result differs from the sequential run under the schedule switching at points {sched_}: {det}", label="thread-schedule")

    try:
        for prefix, sig in prefixes:
            sched.explore_with(lambda pre: cold_execution(h, gran, pre, visits), prefix, sig, bound, on_exec, stats)
    except sched.Divergence as e:
        st.extra.setdefault("harness_errors", []).append(f"scheduler divergence: {e}")
    st.extra["schedule_points"] = stats.get("points", 0)
    return st


def _freerun_job(calls):
    texts = [t for h in THREAD_HARNESSES for t in h]
    bad = []
    old = sys.getswitchinterval()
    sys.setswitchinterval(1e-6)
    results = {}

    def body(k):
        for i in range(calls):
            t = texts[(i + k) % len(texts)]
            try:
                got = sers(get_citations(t))
            except Exception as e:  # noqa: BLE001
                got = ("exc", short_exc(e))
            results.setdefault(t, []).append(got)

    try:
        ths = [threading.Thread(target=body, args=(k,)) for k in range(8)]
        for t in ths:
            t.start()
        for t in ths:
            t.join()
    finally:
        sys.setswitchinterval(old)
    # judged against the sequential result computed afterwards in the same (now warm) process AND
    # against mutual agreement: every call on the same text must give the same answer
    for t in texts:
        seq = sers(get_citations(t))
        for got in results.get(t, []):
            if got != seq:
                bad.append((t, repr(got)[:300]))
                break
    return bad


def explore_threads_cold(tier):
    import multiprocessing as mp

    total = Stats()
    tasks = []
    for h in range(len(THREAD_HARNESSES)):
        for gran, b, visits in THREAD_CONFIGS[tier]:
            try:
                expected = sequential_expected(h)
                root = cold_execution(h, gran, [], visits)
            except sched.Divergence as e:
                total.extra.setdefault("harness_errors", []).append(str(e))
                continue
            if root.error:
                total.extra.setdefault("harness_errors", []).append(root.error)
                continue
            kids = sched.children_of(root, b)
            tasks.append((h, gran, -1, [([], None)], expected, visits))
            chunk = max(1, len(kids) // 64)
            for i in range(0, len(kids), chunk):
                tasks.append((h, gran, b, kids[i : i + chunk], expected, visits))
    with mp.get_context("fork").Pool(16) as pool:
        for st in pool.imap_unordered(_thread_task, tasks, chunksize=1):
            total.merge(st)
    # supplementary free-running pass, also from cold state
    calls = 40 if tier == "quick" else 400
    status, bad = in_fork(lambda: _freerun_job(calls))
    p = total.part("freerun")
    p["evaluations"] += 8 * calls
    total.evaluations += 8 * calls
    total.extra["freerun_calls"] = 8 * calls
    if status == "ok":
        for t, got in bad[:1]:
            total.violation({"part": "freerun", "calls": calls}, f"free-running-threads: result for {t!r} differs under free-running threads: {got}", label="freerun", soft=True)
    return total


def _compress(choices):
    return [[i, c] for i, c in enumerate(choices) if c != 0] + [[len(choices), -1]]


def _expand(comp):
    n = comp[-1][0]
    out = [0] * n
    for i, c in comp[:-1]:
        out[i] = c
    return out


# ---- driver ------------------------------------------------------------------------------------


def shards(tier, seed):
    out = []
    maxdev = 1 if tier == "quick" else 2
    for sh in docspace.shards_for(A1, 2, 1):
        out.append({"part": "setorder", "src": "docs", "maxdev": maxdev, **sh})
    for r in range(8):
        out.append({"part": "setorder", "src": "ties", "r": r, "n": 8, "maxdev": maxdev})
    nseeds = 4 if tier == "quick" else 32
    for i in range(0, nseeds, 4):
        # every group contains seed 0 as the common reference
        out.append({"part": "seeds", "seeds": [0] + [s for s in range(i, i + 4) if s != 0]})
    for tok in ("AC", "HS"):
        for r in range(16):
            out.append({"part": "histories", "tok": tok, "r": r, "n": 16})
        for fam in FAMILIES:
            for r in range(4):
                out.append({"part": "histories", "tok": tok, "family": fam, "r": r, "n": 4})
    out.append({"part": "threads"})
    return out


def run_shard(sh):
    st = Stats()
    if sh["part"] == "setorder":
        run_setorder(st, sh)
    elif sh["part"] == "seeds":
        run_seeds(st, sh)
    elif sh["part"] == "histories":
        run_histories(st, sh)
    elif sh["part"] == "threads":
        return G["thread_stats"]  # explored in setup(), from cold state, before anything else ran
    return st


def replay(case):
    part = case["part"]
    if part == "setorder":
        return [{"msg": f"{lab}: {det}", "label": lab} for lab, det in check_setorder(case["text"], {int(k): tuple(v) for k, v in case["plan"].items()})]
    if part == "seeds":
        return [{"msg": f"{lab}: {det}", "label": lab} for lab, det in replay_seeds(case)]
    if part == "histories":
        tokenizer(case["tok"])
        base = get_baselines(case["tok"], [(n, ALL_OPS[n]) for n in set(case["hist"])])
        return [{"msg": f"{lab}: {det}", "label": lab} for lab, det in check_history(case["hist"], case["tok"], base)]
    if part == "threads":
        expected = sequential_expected(case["h"])
        x = cold_execution(case["h"], case["gran"], _expand(case["choices"]), case.get("visits", 3))
        got = [r[1] if r[0] == "ok" else r for r in x.results]
        if got != expected:
            return [{"msg": f"thread-schedule: results differ from the sequential run under the recorded schedule: {got!r:.400}", "label": "thread-schedule"}]
        return []
    if part == "freerun":
        for attempt in range(3):
            status, bad = in_fork(lambda: _freerun_job(case["calls"]))
            if status == "ok" and bad:
                return [{"msg": "free-running-threads: results differ from the sequential run under free-running OS threads", "label": "freerun"}]
        return []
    return []
