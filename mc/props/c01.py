"""C01 - standard citation forms are recognised with exact components and offsets.

Part 'strings' (full-domain slot): every edition name / variation of REPORTERS, every JOURNALS and LAWS
  key / variation, in the minimal forms 'vol R page' and 'vol R at page' x 3 neutral contexts; editions
  whose templates are not of that shape are written with the example citations shipped in reporters-db.
Part 'forms' (E2): slot products with a deviation bound for each standard form (full case with optional
  parallel cite, short case, supra, id., statute, journal); the generator records the offsets of
  every written component while rendering, and the oracle compares exactly what the statement words.
Part 'courts': every parenthetical-safe court string of courts-db.
"""

from __future__ import annotations

import itertools
import re

from mc import docspace
from mc.ey import M, T, get_citations, short_exc, tokenizer
from mc.kernel import Stats, h64

ID = "C01"
TITLE = "Standard citation forms are recognised with exact components and offsets"
TECHNIQUE = (
    "bounded-exhaustive exploration of get_citations(): full-domain enumeration of all reporter/journal/law strings of "
    "reporters-db in minimal forms and of all courts-db court strings, plus deviation-bounded slot products per citation "
    "form with generator ground truth for spans, groups and metadata"
)
TECHNIQUE += "; " + "the parallel citation's own components and a later mention of a party are part of the full-case product"
RULE = (
    "strings: every reporter/journal/law string x {full, short} x 3 contexts (non-plain shapes: reporters-db examples); forms: "
    "for each of 6 forms all slot assignments with <= d deviations from the default (quick: d = 3 for the full-case form, 4 for the others; thorough: d = 5 / complete products; reporter slot "
    "always complete over 8 representatives); courts: all court strings. distinct = distinct text; non-trivial = text on "
    "which the expected citation was found (all oracles evaluated)."
)
ASSUMPTIONS = [
    "domain guards are computed mechanically: second pattern with different group structure on the same characters; journal keys that are "
    "also reporter keys; strings ending in ' at'; party names from a pool checked to contain no reporter string or stop word",
    "pin-cite shapes are generated from the grammar documented in regexes.py; terminators are the documented ones",
    "finite pools of numbers and names; at most d simultaneous deviations",
]

CONTEXTS = [("", ""), ("See ", ". Next"), ("in ", ", and")]
G = {}


def setup(tier, seed):
    if G:
        return
    from reporters_db import JOURNALS, LAWS, REPORTERS

    strings = []  # (kind, written string, edition name, plain shape, examples)
    for key in sorted(REPORTERS):
        for src in REPORTERS[key]:
            for ed_name, ed in src["editions"].items():
                plain = (not ed.get("regexes")) or "$full_cite" in ed["regexes"]
                strings.append(("rep", ed_name, ed_name, plain))
                for var, target in src["variations"].items():
                    if target == ed_name:
                        strings.append(("rep", var, ed_name, plain))
    rep_keys = {s[1] for s in strings}
    for key in sorted(JOURNALS):
        for src in JOURNALS[key]:
            plain = (not src.get("regexes")) or "$full_cite" in src["regexes"]
            strings.append(("jour", key, key, plain))
            for var in src.get("variations", []):
                strings.append(("jour", var, key, plain))
    G["strings"] = strings
    G["rep_keys"] = rep_keys
    examples = []
    for key in sorted(REPORTERS):
        for src in REPORTERS[key]:
            for ex in src.get("examples", []):
                examples.append(("rep", key, ex))
    for key in sorted(LAWS):
        for src in LAWS[key]:
            for ex in src.get("examples", []):
                examples.append(("law", key, ex))
    for key in sorted(JOURNALS):
        for src in JOURNALS[key]:
            for ex in src.get("examples", []):
                examples.append(("jour", key, ex))
    G["examples"] = examples
    from courts_db import courts

    G["courts"] = sorted({c["citation_string"] for c in courts if c.get("citation_string")})


def bounds(tier):
    return {"reporter_journal_strings": len(G.get("strings", [])), "examples": len(G.get("examples", [])), "court_strings": len(G.get("courts", [])), "deviation_bound": "quick: 3 (full-case form) / 4 (other forms); thorough: 5 (full-case form) / complete product (other forms)", "contexts": CONTEXTS}


def other_structure(text, span, groups):
    """Does a second extractor with a different group-name set match exactly the same characters?"""
    ac = T.default_tokenizer
    mine = {k: v for k, v in groups.items()}
    for ex in ac.get_extractors(text):
        for m in ex.get_matches(text):
            if m.span(1) != span:
                continue
            gd = m.groupdict()
            # different group structure = other group names, or the same names capturing other characters
            if set(gd) != set(mine) or any(gd[k] != mine[k] for k in gd if not (k == "page" and mine[k] is None)):
                return True
    return False


def check_string(kind, s, ed_name, form, ctx):
    """-> (results, status)"""
    pre, post = CONTEXTS[ctx]
    core = f"12 {s} 345" if form == "full" else f"12 {s} at 345"
    text = pre + core + post
    if s.endswith(" at") or " at " in s:
        return [], "skipped-at-string"
    try:
        cs = [c for c in get_citations(text) if not isinstance(c, M.UnknownCitation)]
    except Exception as e:  # noqa: BLE001
        return [("raise", short_exc(e))], "raise"
    res = []
    want_span = (len(pre), len(pre) + len(core))
    main = [c for c in cs if c.span()[0] == want_span[0]]
    if len(cs) != 1 or len(main) != 1:
        return [("count", f"{text!r}: expected exactly one citation at {want_span}, got {[(type(c).__name__, c.span(), c.matched_text()) for c in cs]}")], "ok"
    c = main[0]
    if form == "short":
        expcls = M.ShortCaseCitation
    elif kind == "rep" or s in G["rep_keys"]:
        expcls = M.FullCaseCitation
    else:
        expcls = M.FullJournalCitation
    if type(c) is not expcls:
        # a journal string that another source also lists as a reporter is a case citation (documented precedence)
        return [("kind", f"{text!r}: expected {expcls.__name__}, got {type(c).__name__}")], "ok"
    sp = c.span() if form == "full" else (c.span()[0], c.span()[1])
    if sp != want_span:
        res.append(("span", f"{text!r}: span {sp} {text[sp[0]:sp[1]]!r}, written core at {want_span}"))
    g = c.groups
    # a string ending in ',' cannot be told from the same string followed by the template's optional comma
    rep_ok = g.get("reporter") == s or (s.endswith(",") and g.get("reporter") == s[:-1])
    if g.get("volume") != "12" or g.get("page") != "345" or not rep_ok:
        if other_structure(text, (c.token.start, c.token.end), g):
            # the same characters can be read with another group structure (e.g. 'Tenn. (Cooke)' =
            # reporter 'Tenn.' + nominative reporter 'Cooke'): the written components are ambiguous
            return res, "ok-proviso-other-structure"
        res.append(("groups", f"{text!r}: groups {dict(g)}"))
    eds = [e.short_name for e in c.all_editions]
    if ed_name not in eds:
        if not other_structure(text, (c.token.start, c.token.end), g):
            res.append(("edition", f"{text!r}: written reporter's edition {ed_name!r} not among candidates {eds}"))
        else:
            return res, "ok-proviso-other-structure"
    return res, "ok"


def check_example(kind, key, ex):
    text = f"See {ex}"
    try:
        cs = [c for c in get_citations(text) if not isinstance(c, M.UnknownCitation)]
    except Exception as e:  # noqa: BLE001
        return [("raise", short_exc(e))], "raise"
    full = [c for c in cs if isinstance(c, M.FullCitation) and c.span()[0] == 4]
    if len(full) != 1:
        return [("example-count", f"{text!r} ({kind} {key!r}): expected one full citation starting at 4, got {[(type(c).__name__, c.span(), c.matched_text()) for c in cs]}")], "ok"
    c = full[0]
    res = []
    s, e = c.span()
    if text[s:e] != c.matched_text() or not ex.startswith(c.matched_text()):
        res.append(("example-span", f"{text!r}: span {c.span()} {text[s:e]!r} vs matched {c.matched_text()!r}"))
    eds = [x.reporter.short_name for x in c.all_editions]
    if key not in eds and not other_structure(text, (c.token.start, c.token.end), c.groups):
        res.append(("example-edition", f"{text!r}: source {key!r} not among candidate reporters {sorted(set(eds))}"))
    return res, "ok"


def check_court(cs_string):
    text = f"Foo v. Bar, 1 F.2d 1 ({cs_string} 1999)."
    from eyecite.helpers import get_court_by_paren

    if "(" in cs_string or ")" in cs_string:
        return [], "skipped-paren-unsafe"
    try:
        cs = [c for c in get_citations(text) if isinstance(c, M.FullCaseCitation)]
    except Exception as e:  # noqa: BLE001
        return [("raise", short_exc(e))], "raise"
    if len(cs) != 1:
        return [("court-count", f"{text!r}: {[(type(c).__name__, c.matched_text()) for c in cs]}")], "ok"
    c = cs[0]
    from courts_db import courts

    norm = re.sub(r"[^\w]", "", cs_string).lower()
    ids = {str(x["id"]) for x in courts if re.sub(r"[^\w]", "", x.get("citation_string") or "").lower() == norm}
    res = []
    if c.metadata.year != "1999" or c.year != 1999:
        res.append(("court-year", f"{text!r}: year {c.metadata.year!r}/{c.year}"))
    if c.metadata.court not in ids:
        res.append(("court", f"{text!r}: court {c.metadata.court!r}, courts with that citation string: {sorted(ids)}"))
    return res, "ok"


# ---- forms (E2) ----------------------------------------------------------------------------------

LONG_PROSE = (
    "The panel then turned to the remaining arguments raised by the appellant, none of which had been presented to the trial "
    "judge, and explained at some length why each of them lacked merit under the governing standard, noting that the record "
    "contained ample support for the findings below and that nothing in the briefs suggested otherwise; it relied on "
)  # > 300 characters of neutral prose (no stop word, citation, id., supra, section mark or line break)
PRE = ["", "See ", "In ", "As the court held in ", "The rule is settled. ", LONG_PROSE]
PLAINTIFF = ["Foo", "Smith Co.", "United States", "O'Brien", "Acme Widget Corp.", "State ex rel. Jones"]
DEFENDANT = ["Bar", "Jones", "Garcia-Lopez", "City of Springfield", "Baker & Sons, Inc.", "Doe"]
REP = [("U.S.", "U.S."), ("F.2d", "F.2d"), ("U. S.", "U.S."), ("S. Ct.", "S. Ct."), ("Cal. 4th", "Cal. 4th"), ("N.E.2d", "N.E.2d"), ("Thompson", "Thompson"), ("F. Supp. 2d", "F. Supp. 2d")]
VOLPAGE = [("1", "1"), ("550", "544"), ("999", "12"), ("12", "xii"), ("585", "___")]
PARALLEL = ["", ", 127 S. Ct. 1955"]
PIN = ["", ", 5", ", 5-6", ", at 5", ", 5, 7", ", 5, n.3", ", *5", ", ¶ 5", ", 123:24-25", ", pp. 5-6", ", § 5", ", 5, & n.2"]
import datetime as _dt

NEXT_YEAR = _dt.date.today().year + 1  # documented as valid: a December opinion citing a case to be published in January
COURTYEAR = ["", " (1999)", " (2d Cir. 1999)", " (Cal. Ct. App. 2005)", " [1999]", " (1993-94)", f" ({NEXT_YEAR})", f" (2d Cir. {NEXT_YEAR})", " (1600)"]
PAREN = ["", " (overruling Baz)", " (quoting (x) y)"]
TERM = [".", ";", ",", "", ")", "]"]
SUF = [" Next sentence.", "", " See also 3 F.3d 9.", " Later, {de} at 5 was followed."]  # the last one: a later mention of the defendant (reference citation)
FULL_SLOTS = [("pre", PRE), ("plaintiff", PLAINTIFF), ("defendant", DEFENDANT), ("rep", REP), ("volpage", VOLPAGE), ("parallel", PARALLEL), ("pin", PIN), ("courtyear", COURTYEAR), ("paren", PAREN), ("term", TERM), ("suf", SUF)]
COURT_IDS = {"2d Cir.": "ca2", "Cal. Ct. App.": "calctapp"}


def check_full(a):
    pre, pl, de = a["pre"], a["plaintiff"], a["defendant"]
    rep, ed = a["rep"]
    vol, page = a["volpage"]
    par, pin, cy, paren, term, suf = a["parallel"], a["pin"], a["courtyear"], a["paren"], a["term"], a["suf"]
    if paren and not cy:
        return [], "skipped"  # an explanatory parenthetical is only standard after the year parenthetical
    if term == "" and suf:
        if not (cy or paren):
            return [], "skipped"  # a pin cite / citation followed directly by prose is not a documented terminator
        suf = " " + suf.lstrip() if not suf.startswith(" ") else suf
    if page in ("xii", "___") and pin:
        return [], "skipped"
    core = f"{vol} {rep} {page}"
    text = pre + f"{pl} v. {de}, "
    p_start = len(pre)
    s_exp = len(text)
    text += core
    e_exp = len(text)
    text += pin
    pin_end = len(text)
    text += par + cy + paren
    close = len(text)
    suf = suf.replace("{de}", de)
    par_span = (pin_end + 2, pin_end + len(par)) if par else None
    text += term + suf
    try:
        cs = get_citations(text)
    except Exception as e:  # noqa: BLE001
        return [("raise", short_exc(e))], "raise"
    main = [c for c in cs if c.span() == (s_exp, e_exp)]
    if len(main) != 1:
        return [("full-missing", f"{text!r}: no single citation with span {(s_exp, e_exp)}: {[(type(c).__name__, c.span(), c.matched_text()) for c in cs]}")], "ok"
    c = main[0]
    if not isinstance(c, M.FullCaseCitation):
        return [("full-kind", f"{text!r}: {type(c).__name__}")], "ok"
    res = []
    nfull = [x for x in cs if isinstance(x, M.FullCaseCitation)]
    exp_n = 1 + (1 if par else 0) + (1 if "3 F.3d 9" in suf else 0)
    if len(nfull) != exp_n:
        res.append(("full-count", f"{text!r}: expected {exp_n} full case citations, got {[(x.span(), x.matched_text()) for x in nfull]}"))
    if par and "§" not in pin:
        # (a section-mark pin cite puts a '§' token, i.e. a third citation, between the two: not the parallel-cite form)
        # the parallel citation is a written citation too: exactly one full case citation at its span, sharing the case
        # name (defendant as written, plaintiff a suffix of the written one) and the year parenthetical
        pc = [x for x in nfull if x.span() == par_span]
        if len(pc) != 1:
            res.append(("parallel-missing", f"{text!r}: no single full case citation at the parallel cite {par_span}: {[(x.span(), x.matched_text()) for x in nfull]}"))
        else:
            pm = pc[0].metadata
            if pm.defendant != de:
                res.append(("parallel-defendant", f"{text!r}: parallel cite {pc[0].matched_text()!r} has defendant {pm.defendant!r}, written {de!r}"))
            if not (pm.plaintiff and pl.endswith(pm.plaintiff)):
                res.append(("parallel-plaintiff", f"{text!r}: parallel cite has plaintiff {pm.plaintiff!r}, written {pl!r}"))
            exp_py = cy.strip(" ()[]").split()[-1][:4] if cy else None
            if pm.year != exp_py:
                res.append(("parallel-year", f"{text!r}: parallel cite has year {pm.year!r}, written {exp_py!r}"))
    g = c.groups
    if g.get("volume") != vol or g.get("reporter") != rep or g.get("page") != (None if page == "___" else page):
        res.append(("full-groups", f"{text!r}: groups {dict(g)}"))
    if ed not in [e.short_name for e in c.all_editions] and not other_structure(text, (c.token.start, c.token.end), g):
        res.append(("full-edition", f"{text!r}: {ed!r} not among candidate editions"))
    m = c.metadata
    exp_pin = pin.strip(", ") or None
    if m.pin_cite != exp_pin:
        res.append(("full-pin", f"{text!r}: pin cite {m.pin_cite!r}, written {exp_pin!r}"))
    if exp_pin and c.span_with_pincite() != (s_exp, pin_end):
        res.append(("full-pinspan", f"{text!r}: span_with_pincite {c.span_with_pincite()}, written core+pin {(s_exp, pin_end)}"))
    exp_year = cy.strip(" ()[]").split()[-1][:4] if cy else None
    if m.year != exp_year or c.year != (int(exp_year) if exp_year else None):
        res.append(("full-year", f"{text!r}: year {m.year!r}/{c.year}, written {exp_year!r}"))
    for k, v in COURT_IDS.items():
        if k in cy and m.court != v:
            res.append(("full-court", f"{text!r}: court {m.court!r}, written {k!r}"))
    if m.defendant != de:
        res.append(("full-defendant", f"{text!r}: defendant {m.defendant!r}, written {de!r}"))
    if not (m.plaintiff and pl.endswith(m.plaintiff)):
        res.append(("full-plaintiff", f"{text!r}: plaintiff {m.plaintiff!r} is not a suffix of {pl!r}"))
    exp_paren = {"": None, " (overruling Baz)": "overruling Baz", " (quoting (x) y)": "quoting (x) y"}[paren]
    if cy and m.parenthetical != exp_paren:
        res.append(("full-paren", f"{text!r}: parenthetical {m.parenthetical!r}, written {exp_paren!r}"))
    fs, fe = c.full_span()
    if m.plaintiff and fs != p_start + len(pl) - len(m.plaintiff):
        res.append(("full-fullspan-start", f"{text!r}: full span starts at {fs} {text[fs:fs+15]!r}, extracted plaintiff {m.plaintiff!r} starts at {p_start + len(pl) - len(m.plaintiff)}"))
    if cy:
        if fe < close:
            res.append(("full-fullspan-end", f"{text!r}: full span ends at {fe}, before the closing parenthesis at {close}: {text[fs:fe]!r}"))
        elif text[close:fe].strip() != "":
            res.append(("full-fullspan-end", f"{text!r}: full span ends at {fe}, beyond the closing parenthesis by {text[close:fe]!r}"))
    return res, "ok"


ANTE = ["Bar", "Garcia-Lopez", "Jones", "Smith", "Pe\u00f1a", "Mu\u00f1oz-\u00c9lan"]
SREP = [("U.S.", "U.S."), ("F.2d", "F.2d"), ("U. S.", "U.S."), ("S. Ct.", "S. Ct.")]
SPIN = ["5", "5-6", "5, 7", "5, n.3", "123:24-25", "5, & n.2"]
LPIN = ["5", "5-6", "5, 7", "5, n.3", "*5", "¶ 5", "123:24-25", "pp. 5-6"]
SPAREN = ["", " (quoting Baz)", " (quoting (x) y)"]
STERM = [".", ";", ",", "", ")"]
SSUF = [" Next sentence.", ""]
SPRE = ["", "See ", "As noted in ", "That is settled. ", LONG_PROSE]
SHORT_SLOTS = [("pre", SPRE), ("ante", ANTE), ("rep", SREP), ("pin", SPIN), ("paren", SPAREN), ("term", STERM), ("suf", SSUF), ("comma", ["", ","])]
SUPRA_SLOTS = [("pre", SPRE), ("ante", ANTE), ("form", [", supra, at ", " supra at ", ", supra, ", ", 12 supra, at "]), ("pin", LPIN), ("paren", SPAREN), ("term", STERM), ("suf", SSUF)]
ID_SLOTS = [("pre", ["", "See ", "That is settled. ", LONG_PROSE]), ("idf", ["Id.", "Ibid.", "id.", "Id.,"]), ("form", [" at ", " "]), ("pin", LPIN), ("paren", SPAREN), ("term", STERM), ("suf", SSUF)]
PAREN_TXT = {"": None, " (quoting Baz)": "quoting Baz", " (quoting (x) y)": "quoting (x) y"}


def _termok(a):
    return not (a["term"] == "" and a["paren"] == "" and a["suf"] != "")


def check_short(a):
    if not _termok(a):
        return [], "skipped"
    pre, ante, (rep, ed), pin, paren, term, suf, comma = (a[k] for k in ("pre", "ante", "rep", "pin", "paren", "term", "suf", "comma"))
    text = pre + ante + ", "
    fs = len(pre)
    s = len(text)
    text += f"12 {rep}{comma} at {pin}"
    e = len(text)
    text += paren
    pe = len(text)
    text += term + suf
    try:
        cs = get_citations(text)
    except Exception as ex:  # noqa: BLE001
        return [("raise", short_exc(ex))], "raise"
    m = [c for c in cs if isinstance(c, M.ShortCaseCitation)]
    if len(m) != 1 or len([c for c in cs if not isinstance(c, M.UnknownCitation)]) != 1:
        return [("short-count", f"{text!r}: {[(type(c).__name__, c.span()) for c in cs]}")], "ok"
    c = m[0]
    res = []
    if c.span() != (s, e):
        res.append(("short-span", f"{text!r}: span {c.span()} {text[c.span()[0]:c.span()[1]]!r}, written core+pin {(s, e)}"))
    if c.span_with_pincite() != (s, e):
        res.append(("short-pinspan", f"{text!r}: span_with_pincite {c.span_with_pincite()} vs {(s, e)}"))
    if c.metadata.pin_cite != pin:
        res.append(("short-pin", f"{text!r}: pin {c.metadata.pin_cite!r}, written {pin!r}"))
    if c.metadata.antecedent_guess != ante:
        res.append(("short-antecedent", f"{text!r}: antecedent {c.metadata.antecedent_guess!r}, written {ante!r}"))
    page = re.match(r"\d+", pin)[0]
    if c.groups.get("volume") != "12" or c.groups.get("reporter") != rep or c.groups.get("page") != page:
        res.append(("short-groups", f"{text!r}: groups {dict(c.groups)}"))
    if ed not in [x.short_name for x in c.all_editions]:
        res.append(("short-edition", f"{text!r}: {ed!r} not among candidates"))
    if c.metadata.parenthetical != PAREN_TXT[paren]:
        res.append(("short-paren", f"{text!r}: parenthetical {c.metadata.parenthetical!r}"))
    f0, f1 = c.full_span()
    if f0 != fs:
        res.append(("short-fullspan-start", f"{text!r}: full span starts at {f0}, antecedent at {fs}"))
    if f1 < e or (f1 > pe and text[pe:f1].strip() != ""):
        res.append(("short-fullspan-end", f"{text!r}: full span ends at {f1}; citation ends at {e}, parenthetical at {pe}"))
    return res, "ok"


def check_supra(a):
    if not _termok(a):
        return [], "skipped"
    pre, ante, form, pin, paren, term, suf = (a[k] for k in ("pre", "ante", "form", "pin", "paren", "term", "suf"))
    text = pre
    fs = len(text)
    text += ante
    vol = "12" if "12" in form else None
    lead = form[: form.index("supra")]
    text += lead
    s = len(text)
    tail = form[form.index("supra") :]
    text += tail + pin
    e = len(text)
    text += paren
    text += term + suf
    try:
        cs = get_citations(text)
    except Exception as ex:  # noqa: BLE001
        return [("raise", short_exc(ex))], "raise"
    m = [c for c in cs if isinstance(c, M.SupraCitation)]
    if len(m) != 1 or len([c for c in cs if not isinstance(c, M.UnknownCitation)]) != 1:
        return [("supra-count", f"{text!r}: {[(type(c).__name__, c.span()) for c in cs]}")], "ok"
    c = m[0]
    res = []
    if c.span() != (s, e):
        res.append(("supra-span", f"{text!r}: span {c.span()} {text[c.span()[0]:c.span()[1]]!r}, written {(s, e)} {text[s:e]!r}"))
    exp_pin = ("at " + pin) if "at" in tail else pin
    if c.metadata.pin_cite != exp_pin:
        res.append(("supra-pin", f"{text!r}: pin {c.metadata.pin_cite!r}, written {exp_pin!r}"))
    if c.metadata.antecedent_guess != ante:
        res.append(("supra-antecedent", f"{text!r}: antecedent {c.metadata.antecedent_guess!r}, written {ante!r}"))
    if c.metadata.volume != vol:
        res.append(("supra-volume", f"{text!r}: volume {c.metadata.volume!r}"))
    if c.metadata.parenthetical != PAREN_TXT[paren]:
        res.append(("supra-paren", f"{text!r}: parenthetical {c.metadata.parenthetical!r}"))
    if c.full_span()[0] != fs:
        res.append(("supra-fullspan-start", f"{text!r}: full span {c.full_span()}, antecedent starts at {fs}"))
    return res, "ok"


def check_id(a):
    if not _termok(a):
        return [], "skipped"
    pre, idf, form, pin, paren, term, suf = (a[k] for k in ("pre", "idf", "form", "pin", "paren", "term", "suf"))
    if idf == "Ibid." and form == " at ":
        pass
    text = pre
    s = len(text)
    text += idf + form + pin
    e = len(text)
    text += paren
    text += term + suf
    try:
        cs = get_citations(text)
    except Exception as ex:  # noqa: BLE001
        return [("raise", short_exc(ex))], "raise"
    m = [c for c in cs if isinstance(c, M.IdCitation)]
    if len(m) != 1 or len([c for c in cs if not isinstance(c, M.UnknownCitation)]) != 1:
        return [("id-count", f"{text!r}: {[(type(c).__name__, c.span()) for c in cs]}")], "ok"
    c = m[0]
    res = []
    if c.span() != (s, e):
        res.append(("id-span", f"{text!r}: span {c.span()} {text[c.span()[0]:c.span()[1]]!r}, written {(s, e)} {text[s:e]!r}"))
    exp_pin = (form.strip() + " " + pin).strip()
    if c.metadata.pin_cite != exp_pin:
        res.append(("id-pin", f"{text!r}: pin {c.metadata.pin_cite!r}, written {exp_pin!r}"))
    if c.metadata.parenthetical != PAREN_TXT[paren]:
        res.append(("id-paren", f"{text!r}: parenthetical {c.metadata.parenthetical!r}"))
    return res, "ok"


LAW_SLOTS = [
    ("pre", ["", "See ", "Under "]),
    ("law", [("Mass. Gen. Laws ch. 1, § 2", {"reporter": "Mass. Gen. Laws", "chapter": "1", "section": "2"}), ("42 U.S.C. § 1983", {"reporter": "U.S.C.", "title": "42", "section": "1983"}), ("Cal. Penal Code § 187", {"reporter": "Cal. Penal Code", "section": "187"}), ("29 C.F.R. § 1910.12", {"reporter": "C.F.R.", "section": "1910.12"})]),
    ("pin", ["", "(a)", "(a)(2)", "(a)(2) and (d)", " et seq."]),
    ("pub", ["", " (1999)", " (West 1999)", " (West Supp. 2001)", " (May 2, 1999)"]),
    ("paren", ["", " (repealed 2003)"]),
    ("term", [".", ";", ",", ""]),
    ("suf", [" Next sentence.", ""]),
]
JOUR_SLOTS = [
    ("pre", ["", "See ", "Cf. Smith, Title of Article, "]),
    ("jour", [("Minn. L. Rev.", "1", "1"), ("Harv. L. Rev.", "100", "1234"), ("Yale L.J.", "55", "7")]),
    ("pin", ["", ", 5", ", 5-6", ", 5, 7", ", 5 n.3"[:0] + ", 5, n.3"]),
    ("year", ["", " (1999)", " (1993-94)"]),
    ("paren", ["", " (arguing x)"]),
    ("term", [".", ";", ",", ""]),
    ("suf", [" Next sentence.", ""]),
]


def check_law(a):
    pre, (core, groups), pin, pub, paren, term, suf = (a[k] for k in ("pre", "law", "pin", "pub", "paren", "term", "suf"))
    if paren and not pub:
        return [], "skipped"
    if term == "" and suf and not (pub or paren):
        return [], "skipped"
    text = pre
    s = len(text)
    text += core
    e = len(text)
    text += pin + pub + paren
    close = len(text)
    text += term + suf
    try:
        cs = get_citations(text)
    except Exception as ex:  # noqa: BLE001
        return [("raise", short_exc(ex))], "raise"
    m = [c for c in cs if isinstance(c, M.FullLawCitation)]
    if len(m) != 1 or len(cs) != 1:
        return [("law-count", f"{text!r}: {[(type(c).__name__, c.span(), c.matched_text()) for c in cs]}")], "ok"
    c = m[0]
    res = []
    if c.span() != (s, e):
        res.append(("law-span", f"{text!r}: span {c.span()} {text[c.span()[0]:c.span()[1]]!r}, written {(s, e)}"))
    for k, v in groups.items():
        if c.groups.get(k) != v:
            res.append(("law-groups", f"{text!r}: group {k}={c.groups.get(k)!r}, written {v!r}"))
    if (c.metadata.pin_cite or None) != (pin.strip() or None):
        res.append(("law-pin", f"{text!r}: pin {c.metadata.pin_cite!r}, written {pin!r}"))
    ym = re.search(r"(\d{4})\)", pub)
    if c.metadata.year != (ym[1] if ym else None):
        res.append(("law-year", f"{text!r}: year {c.metadata.year!r}"))
    if pub and c.metadata.parenthetical != ("repealed 2003" if paren else None):
        res.append(("law-paren", f"{text!r}: parenthetical {c.metadata.parenthetical!r}"))
    fs, fe = c.full_span()
    if pub and (fe < close or text[close:fe].strip() != ""):
        res.append(("law-fullspan-end", f"{text!r}: full span ends at {fe}, closing parenthesis at {close}"))
    return res, "ok"


def check_journal(a):
    pre, (rep, vol, page), pin, year, paren, term, suf = (a[k] for k in ("pre", "jour", "pin", "year", "paren", "term", "suf"))
    if paren and not year:
        return [], "skipped"
    if term == "" and suf and not (year or paren):
        return [], "skipped"
    text = pre
    s = len(text)
    core = f"{vol} {rep} {page}"
    text += core
    e = len(text)
    text += pin + year + paren
    close = len(text)
    text += term + suf
    try:
        cs = get_citations(text)
    except Exception as ex:  # noqa: BLE001
        return [("raise", short_exc(ex))], "raise"
    m = [c for c in cs if isinstance(c, M.FullJournalCitation)]
    if len(m) != 1 or len(cs) != 1:
        return [("journal-count", f"{text!r}: {[(type(c).__name__, c.span(), c.matched_text()) for c in cs]}")], "ok"
    c = m[0]
    res = []
    if c.span() != (s, e):
        res.append(("journal-span", f"{text!r}: span {c.span()}, written {(s, e)}"))
    if (c.groups.get("volume"), c.groups.get("reporter"), c.groups.get("page")) != (vol, rep, page):
        res.append(("journal-groups", f"{text!r}: groups {dict(c.groups)}"))
    if c.metadata.pin_cite != (pin.strip(", ") or None):
        res.append(("journal-pin", f"{text!r}: pin {c.metadata.pin_cite!r}, written {pin!r}"))
    ey = year.strip(" ()")[:4] or None
    if c.metadata.year != ey or c.year != (int(ey) if ey else None):
        res.append(("journal-year", f"{text!r}: year {c.metadata.year!r}/{c.year}"))
    if year and c.metadata.parenthetical != ("arguing x" if paren else None):
        res.append(("journal-paren", f"{text!r}: parenthetical {c.metadata.parenthetical!r}"))
    fs, fe = c.full_span()
    if year and (fe < close or text[close:fe].strip() != ""):
        res.append(("journal-fullspan-end", f"{text!r}: full span ends at {fe}, closing parenthesis at {close}"))
    return res, "ok"


FORMS = {
    "full": (FULL_SLOTS, check_full, ("rep",)),
    "short": (SHORT_SLOTS, check_short, ("rep",)),
    "supra": (SUPRA_SLOTS, check_supra, ()),
    "id": (ID_SLOTS, check_id, ()),
    "law": (LAW_SLOTS, check_law, ("law",)),
    "journal": (JOUR_SLOTS, check_journal, ("jour",)),
}


def replay(case):
    setup("replay", 0)
    k = case["kind"]
    if k == "string":
        res, _ = check_string(case["skind"], case["s"], case["ed"], case["form"], case["ctx"])
    elif k == "example":
        res, _ = check_example(case["skind"], case["key"], case["ex"])
    elif k == "court":
        res, _ = check_court(case["court"])
    else:
        a = {kk: (tuple(v) if isinstance(v, list) else v) for kk, v in case["assign"].items()}
        if k == "law":
            a["law"] = (case["assign"]["law"][0], case["assign"]["law"][1])
        res, _ = FORMS[k][1](a)
    return [{"msg": f"{lab}: {det}", "label": lab} for lab, det in res]


def shards(tier, seed):
    out = []
    for r in range(32):
        out.append({"part": "strings", "r": r, "n": 32})
    for r in range(8):
        out.append({"part": "examples", "r": r, "n": 8})
        out.append({"part": "courts", "r": r, "n": 8})
    for f in FORMS:
        if tier == "quick":
            b = 3 if f == "full" else 4
        else:
            b = 5 if f == "full" else len(FORMS[f][0])  # complete product for the smaller forms
        n = 48 if tier == "quick" else 256
        for r in range(n):
            out.append({"part": "forms", "form": f, "bound": b, "r": r, "n": n})
    return out


def run_shard(sh):
    st = Stats()
    p = st.part(sh["part"] + ("-" + sh["form"] if "form" in sh else ""))

    def record(case, key, res, status, prefix):
        st.evaluations += 1
        st.transitions += 1
        p["evaluations"] += 1
        p[status] = p.get(status, 0) + 1
        st.states.add(key)
        if status.startswith("ok"):
            st.traces += 1
            if not res:
                st.nontrivial.add(key)
            if not st.samples:
                st.sample(case)
        st.outcomes.add(h64([status, [r[0] for r in res]]))
        for lab, det in res:
            st.violation(case, f"{lab}: {det}", label=f"{prefix}-{lab}")

    if sh["part"] == "strings":
        for kind, s, ed, plain in G["strings"][sh["r"] :: sh["n"]]:
            if not plain:
                p["non-plain-shape"] = p.get("non-plain-shape", 0) + 1
                continue
            for form in ("full", "short"):
                for ctx in range(len(CONTEXTS)):
                    res, status = check_string(kind, s, ed, form, ctx)
                    record({"kind": "string", "skind": kind, "s": s, "ed": ed, "form": form, "ctx": ctx}, h64([s, form, ctx]), res, status, "strings")
        return st
    if sh["part"] == "examples":
        for kind, key, ex in G["examples"][sh["r"] :: sh["n"]]:
            res, status = check_example(kind, key, ex)
            record({"kind": "example", "skind": kind, "key": key, "ex": ex}, h64(["ex", ex]), res, status, "examples")
        return st
    if sh["part"] == "courts":
        for cs_ in G["courts"][sh["r"] :: sh["n"]]:
            res, status = check_court(cs_)
            record({"kind": "court", "court": cs_}, h64(["court", cs_]), res, status, "courts")
        return st
    slots, fn, full = FORMS[sh["form"]]
    gen = docspace.deviations(slots, sh["bound"], full=full)
    for a, nd in itertools.islice(gen, sh["r"], None, sh["n"]):
        res, status = fn(a)
        record({"kind": sh["form"], "assign": a}, h64([sh["form"], a]), res, status, "forms")
    return st
