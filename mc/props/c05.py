"""C05 - unambiguous references are grouped with the case they refer to."""

from __future__ import annotations

from mc.ey import M, get_citations, resolve_citations
from mc.kernel import Stats, h64

ID = "C05"
TITLE = "Unambiguous references are grouped with the case they refer to"
TECHNIQUE = (
    "bounded-exhaustive exploration of scenario histories: every event word <= L over {full, short+name, bare short, "
    "supra, id(+2), id(-5), id(+500), filler} x cases (two colliding on reporter+volume) rendered to one running text, "
    "run through get_citations + resolve_citations and compared with the scenario's own reference model"
)
TECHNIQUE += "; " + 'also: every pin cite within the opinion for 12 first pages x 5 contexts, six value pools (sibling series, two-letter names, variation spellings with out-of-range years), line-per-sentence rendering; a subset again under python -O'
RULE = (
    "scenario = word over events for n cases (references only after their full citation), all words of length <= L, "
    "rendered as sentences of one document (scenarios of <= 4 events also one sentence per line). distinct = distinct rendered text; non-trivial = scenario with >= 1 "
    "reference (short/supra/id) whose intended antecedent is defined by the model. idpins: 12 first pages x every pin cite "
    "from page-12 to page+150 plus four far-away pins x 5 contexts (directly after the full citation / a short form / a supra / "
    "an id., and as a page range) x 3 pools."
)
ASSUMPTIONS = [
    "seven pre-validated value pools of party names / reporters / pages (all enumerated in both tiers)",
    "id. offsets {+2, -5, +500}: +2 is within the opinion, -5 before its first page, +500 implausibly far",
    "nothing is asserted about ambiguous references (C07 covers them) nor about an id. that follows one",
]

POOLS = [
    [("Foo", "Bar", "1", "U.S.", "10"), ("Smith", "Jones", "1", "U.S.", "50"), ("Adams", "Baker", "2", "F.2d", "20")],
    [("Roe", "Wade", "410", "U.S.", "113"), ("Doe", "Bolton", "410", "U.S.", "179"), ("Miranda", "Arizona", "384", "U.S.", "436")],
    [("Alpha", "Beta", "5", "F.3d", "100"), ("Gamma", "Delta", "5", "F.3d", "300"), ("Kappa", "Sigma", "7", "Cal. 4th", "40")],
    # sibling series of one reporter family with the same volume (and, for two of them, the same page): distinct reporters
    [("Adams", "Baker", "100", "F.2d", "200"), ("Clark", "Dunn", "100", "F.3d", "200"), ("Evans", "Flynn", "100", "F.", "350")],
    # two-letter party names (shorter than the three characters a *reference* citation needs; short forms and supra do not have that floor)
    [("Wu", "Li", "13", "Cal. 3d", "804"), ("Smith", "Ng", "13", "Cal. 3d", "100"), ("Ito", "Oz", "2", "F.2d", "20")],
    # party names with an apostrophe / a non-ASCII letter
    [("United States", "O'Brien", "391", "U.S.", "367"), ("Smith", "D'Arcy", "391", "U.S.", "500"), ("Pe\u00f1a", "Mu\u00f1oz", "2", "F.2d", "20")],
    # variation spellings of unambiguous reporters, dated before / after the edition's recorded range in reporters-db
    [("Marbury", "Madison", "5", "U. S.", "137", "1803"), ("Hylton", "Ware", "5", "U. S.", "199", "1796"), ("Adams", "Baker", "900", "F.Supp.", "100", "1995")],
]
NCASES = 3
NL_MAX = 4  # scenarios of <= 4 events are also rendered one sentence per line
L = {"quick": 5, "thorough": 6}
ALPHA = []
for _i in range(NCASES):
    ALPHA += [("full", _i), ("short", _i, True), ("short", _i, False), ("supra", _i)]
ALPHA += [("idrel", 2), ("idrel", -5), ("idrel", 500), ("fill",), ("longfill",)]
LONGFILL = (
    "The panel then turned to the remaining arguments raised by the appellant, none of which had been presented to the trial "
    "judge, and explained at some length why each of them lacked merit under the governing standard, noting that the record "
    "contained ample support for the findings below and that nothing in the briefs suggested otherwise."
)  # > 300 characters of neutral prose: no stop word, citation, id., supra, section mark or line break


def bounds(tier):
    return {"cases": NCASES, "max_events": L[tier], "event_alphabet": len(ALPHA), "pools": len(POOLS), "idpin_pages": IDPIN_PAGES, "idpin_offsets": "-12..+150 all, +501, +1000, x10"}


def step(state, ev, cases):
    """Reference model. state = (seen tuple, last, lastdef). Returns (new_state, rendered_event, expectation) or None
    when the event is not allowed here (reference before its full citation)."""
    seen, last, lastdef, stale = state
    k = ev[0]
    if k == "full":
        ns = seen if ev[1] in seen else seen + (ev[1],)
        return (ns, ev[1], True, ev[1]), ev, ("full", ev[1])
    if k == "short":
        i = ev[1]
        if i not in seen:
            return None
        same = [j for j in seen if cases[j][2:4] == cases[i][2:4]]
        unamb = len(same) == 1 or ev[2]
        if unamb:
            return (seen, i, True, i), ev, ("ref", i)
        return (seen, None, False, stale), ev, ("ambiguous", None)
    if k == "supra":
        i = ev[1]
        if i not in seen:
            return None
        return (seen, i, True, i), ev, ("ref", i)
    if k == "idrel":
        # the pin cite is plausible for the most recently resolved case, so that the ONLY reason to leave
        # this id. out is the unresolved citation right before it
        plausible = int(cases[stale][4]) + 2 if stale is not None else 5
        if not lastdef:  # follows an ambiguous reference: the model does not say what happens
            return (seen, None, False, stale), ("id", plausible), ("unspecified", None)
        if last is None:  # follows an unresolved citation (or nothing): must be left out
            if ev[1] != 2:
                return None  # one rendering is enough here
            return (seen, None, True, stale), ("id", plausible), ("ref", None)
        pg = int(cases[last][4]) + ev[1]
        if pg <= 0:
            return None
        valid = 0 <= ev[1] <= 150
        return (seen, last if valid else None, True, stale), ("id", pg), ("ref", last if valid else None)
    return state, ev, None


def render(events, cases, sep=" "):
    parts = []
    for ev in events:
        k = ev[0]
        if k == "full":
            p, d, v, rep, pg = cases[ev[1]][:5]
            yr = cases[ev[1]][5] if len(cases[ev[1]]) > 5 else "1990"
            parts.append(f"{p} v. {d}, {v} {rep} {pg} ({yr}).")
        elif k == "short":
            p, d, v, rep, pg = cases[ev[1]][:5]
            nm = f"{d}, " if ev[2] else "See "
            parts.append(f"{nm}{v} {rep} at {int(pg) + 2}.")
        elif k == "supra":
            p, d, v, rep, pg = cases[ev[1]][:5]
            parts.append(f"{d}, supra, at {int(pg) + 3}.")
        elif k == "id":
            parts.append(f"Id. at {ev[1]}.")
        elif k == "longfill":
            parts.append(LONGFILL)
        else:
            parts.append("The court agreed with this.")
    return sep.join(parts)


def check_text(text, expect):
    out = []
    cs = get_citations(text)
    exp = [e for e in expect if e is not None]
    kinds_ok = len(cs) == len(exp) and all(
        isinstance(c, M.FullCaseCitation) if e[0] == "full" else not isinstance(c, M.FullCitation) for c, e in zip(cs, exp)
    )
    if not kinds_ok:
        return [("count", f"expected {len(exp)} citations {[e[0] for e in exp]}, extracted {[type(c).__name__ for c in cs]}")], 0
    res = resolve_citations(cs)
    where = {}
    for r, lst in res.items():
        for c in lst:
            where[id(c)] = r
    casemap = {}
    for c, e in zip(cs, exp):
        if e[0] == "full":
            r = where.get(id(c))
            if r is None:
                return [("full-unresolved", f"full citation {c.matched_text()!r} has no resource")], 0
            if e[1] in casemap and casemap[e[1]] is not r and casemap[e[1]] != r:
                return [("split", f"case {e[1]} has two resources")], 0
            casemap.setdefault(e[1], r)
    keys = list(casemap.values())
    for a in range(len(keys)):
        for b in range(a + 1, len(keys)):
            if keys[a] is keys[b] or keys[a] == keys[b]:
                out.append(("merged", "two distinct cases share a resource"))
    if len(res) != len(casemap):
        out.append(("resource-count", f"{len(casemap)} distinct cases but {len(res)} resources"))
    nref = 0
    for c, e in zip(cs, exp):
        if e[0] != "ref":
            continue
        nref += 1
        r = where.get(id(c))
        kind = type(c).__name__
        if e[1] is None:
            if r is not None:
                out.append((f"should-be-left-out-{kind}", f"{c.matched_text()!r} (pin {c.metadata.pin_cite!r}) attached to {r.citation.matched_text()!r}"))
        elif r is None:
            out.append((f"unattached-{kind}", f"unambiguous {c.matched_text()!r} written for case {e[1]} left unresolved"))
        elif r is not casemap[e[1]] and r != casemap[e[1]]:
            out.append((f"wrong-{kind}", f"{c.matched_text()!r} written for case {e[1]} attached to {r.citation.matched_text()!r}"))
    return out, nref


IDPIN_PAGES = [1, 7, 9, 10, 11, 95, 99, 100, 850, 999, 1000, 9990]
IDPIN_CTX = [
    ("direct", "{full} Id. at {pin}."),
    ("after-short", "{full} The court agreed. See {v} {rep} at {p1}. Id. at {pin}."),
    ("after-supra", "{full} {d}, supra, at {p1}. Id. at {pin}, and so on."),
    ("range", "{full} Id. at {pin}-{pin1}."),
    ("after-id", "{full} Id. The court agreed. Id. at {pin}."),
]


def idpin_texts(pool):
    """Every first page of a boundary set x EVERY pin cite within the opinion (page .. page+150), every pin before the first
    page down to page-12, and pins implausibly far beyond it; the id. directly follows a resolved citation of the case."""
    p, d, v, rep, _ = POOLS[pool][0][:5]
    for pg in IDPIN_PAGES:
        full = f"{p} v. {d}, {v} {rep} {pg} (1990)."
        pins = list(range(max(1, pg - 12), pg + 151)) + [pg + 501, pg + 1000, pg * 10 + 5000, 10 * (pg + 150) + 9]
        for pin in pins:
            valid = pg <= pin <= pg + 150
            for name, tmpl in IDPIN_CTX:
                text = tmpl.format(full=full, pin=pin, pin1=pin + 1, v=v, rep=rep, d=d, p1=pg + 1)
                nfull_refs = {"direct": 0, "after-short": 1, "after-supra": 1, "range": 0, "after-id": 1}[name]
                expect = [("full", 0)] + [("ref", 0)] * nfull_refs + [("ref", 0 if valid else None)]
                yield text, expect


def replay(case):
    res, _ = check_text(case["text"], [tuple(e) if e is not None else None for e in case["expect"]])
    return [{"msg": f"{lab}: {det} :: text={case['text']!r}", "label": lab} for lab, det in res]


def shards(tier, seed):
    pools = range(len(POOLS))
    out = [{"pool": p, "idpins": True, "r": r, "n": 4} for p in pools for r in range(4)]
    for p in pools:
        out.append({"pool": p, "first": None, "L": L[tier]})
        for a in range(len(ALPHA)):
            for b in range(len(ALPHA)):
                out.append({"pool": p, "first": [a, b], "L": L[tier]})
    return out


def opt_shards(tier):
    return [{"pool": 0, "idpins": True, "r": r, "n": 8} for r in range(8)] + [{"pool": 3, "first": [a, b], "L": 4} for a in range(len(ALPHA)) for b in range(len(ALPHA))]


def run_shard(sh):
    st = Stats()
    cases = POOLS[sh["pool"]]
    if sh.get("idpins"):
        part = st.part("idpins")
        import itertools

        for text, expect in itertools.islice(idpin_texts(sh["pool"]), sh["r"], None, sh["n"]):
            st.transitions += 1
            k = h64(text)
            st.states.add(k)
            st.evaluations += 1
            st.traces += 1
            part["evaluations"] += 1
            res, nref = check_text(text, expect)
            st.nontrivial.add(k)
            st.outcomes.add(h64([nref, [r[0] for r in res]]))
            for lab, det in res:
                st.violation({"text": text, "expect": [list(e) for e in expect]}, f"{lab}: {det} :: text={text!r}", label="idpin-" + lab)
        return st
    part = st.part(f"pool{sh['pool']}")
    Lmax = sh["L"]

    def visit(state, events, expect, depth):
        # evaluate this scenario
        for sep in (" ", "\n") if events and len(events) <= NL_MAX else ((" ",) if events else ()):
            text = render(events, cases, sep)
            k = h64(text)
            if k not in st.states:
                st.states.add(k)
                st.evaluations += 1
                st.traces += 1
                part["evaluations"] += 1
                res, nref = check_text(text, expect)
                if nref:
                    st.nontrivial.add(k)
                    if not st.samples and depth == Lmax:
                        st.sample({"events": [list(e) for e in events], "text": text, "expect": [list(e) if e else None for e in expect]})
                st.outcomes.add(h64([nref, [r[0] for r in res]]))
                case = {"text": text, "expect": [list(e) if e else None for e in expect]}
                for lab, det in res:
                    st.violation(case, f"{lab}: {det} :: text={text!r}", label=lab)
        if depth == Lmax:
            return
        for ev in ALPHA:
            st.transitions += 1
            r = step(state, ev, cases)
            if r is None:
                continue
            ns, rev, ex = r
            visit(ns, events + [rev], expect + [ex], depth + 1)

    init = ((), None, True, None)
    if sh["first"] is None:
        # scenarios of length <= 1 only (longer ones are in the prefix shards)
        for ev in ALPHA:
            st.transitions += 1
            r = step(init, ev, cases)
            if r:
                ns, rev, ex = r
                saveL, Lmax = Lmax, 1
                visit(ns, [rev], [ex], 1)
                Lmax = saveL
        return st
    state, events, expect = init, [], []
    for j, a in enumerate(sh["first"]):
        st.transitions += 1
        r = step(state, ALPHA[a], cases)
        if r is None:
            return st
        state, rev, ex = r
        events.append(rev)
        expect.append(ex)
    visit(state, events, expect, 2)
    return st
