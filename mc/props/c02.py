"""C02 - reported offsets index the text they claim to index."""

from __future__ import annotations

from mc import docdriver as dd
from mc import docoracles, docspace
from mc.ey import tokenizer
from mc.kernel import Stats

ID = "C02"
TITLE = "Reported offsets index the text they claim to index"
TECHNIQUE = (
    "bounded-exhaustive exploration of get_citations(): all fragment sequences <= depth k, all <=2 "
    "fragment edits and <=2 character edits of template documents, plain and markup mode, three tokenizers"
)
TECHNIQUE += "; " + 'also: generated legal mark-up cleaned with three step lists in both orders within one execution, transform-sensitive fragments (typographic spaces, decomposed accents, ligatures), post-citation products, documents beyond 64 KiB; a subset of shards again under python -O'
RULE = (
    "documents = all concatenations of <=k fragments of A0 (plain) / decorated fragments (markup); all "
    "fragment-edit and character-edit mutations of 8 templates within the edit bound; every <= 3-fragment document containing a transform-sensitive fragment (typographic spaces, decomposed accents, ligatures, full-width digits); complete slot product of generated legal mark-up (C19's documents), each cleaned with 3 step lists forwards and backwards in one execution. distinct = distinct "
    "(tokenizer, mode, text); non-trivial = extraction returned >=1 citation (every returned citation is checked)."
)
ASSUMPTIONS = [
    "finite fragment/character alphabets; documents needing more fragments or edits than the bound are not covered",
    "markup mode is exercised with clean_steps ['html','all_whitespace'] and ['html','inline_whitespace']",
    "an exception during extraction is C04's business and only counted here",
]

A0 = docspace.A0
MK_FRAGS = [
    "1 U.S. 1",
    "Foo v. Bar, ",
    " (1999)",
    "1 U.S. at 5",
    "Id. at 5",
    "Foo, supra, at 3",
    ". ",
    " ",
    "Bar at 9",
    "hello",
    "2 F.2d 2, 4",
    "Shapiro v. Thompson, ",
    "394 U. S. 618",
    "See ",
    "; ",
]
DECOR = ["{}", "<i>{}</i>", "<p>{}</p>", "\n  {}", "<em>{}</em> "]
MK = dd.decorate(MK_FRAGS, DECOR)
ALPHABETS = {"A0": A0, "MK": MK}

TEMPLATES = [
    ["See ", "Foo v. Bar, ", "1 U.S. 1", ", 5-6", " (1999)", ". ", "Id. at 5", ". ", "Foo, supra", " at 7", ". ", "1 U.S. at 5", " hello"],
    ["Shapiro v. Thompson, ", "394 U. S. 618", ", ", "2 F.2d 2", " (2d Cir. 1999)", " (quoting (x) y)", "; ", "Bar at 9"],
    ["In re Cooke, ", "3 Thompson 4", " ", "1 U.S. (1 Wall.) 12", ", ", "127 S.Ct. 1955, ", "1 U.S. ___", " [1999]"],
    ["Mass. Gen. Laws ch. 1, § 2", " (West 1999)", "; ", "1 Minn. L. Rev. 1", ", 5-6", " (1999)", "\n", "Ibid.", " ", "5 supra", ", at 7"],
]
CHAR_TEMPLATES = [
    "See Foo v. Bar, 1 U.S. 1, 5 (1999). Id. at 5.",
    "Bar, 1 U.S. at 5 (x). Foo, supra, at 7.",
    "Shapiro v. Thompson, 394 U. S. 618, 2 F.2d 2",
    "Smith at 3, 1 U.S. 1; § 5 Id., at 9",
    "Foo v. Bar, 1 U.S. 1 (1999). In Bar at 5, and Foo at 7.",
    # the case name / citation begins at the very start of the document or ends at its very end
    "\nv. Wade, 410 U.S. 113, 153 (1973) x",
    "a v. b, 1 U.S. 1",
    "Id. at 5 (x) 1 U.S. at 5",
]
CHARS = [" ", ",", ".", "1", "a", "A", "(", ")", "§", "\n", "é", "—", "v", "_"]

DEPTH = {
    "quick": {"AC": 3, "HS": 3, "REF": 2, "MK": 2, "FE": 1, "CE": 1},
    "thorough": {"AC": 4, "HS": 4, "REF": 3, "MK": 3, "FE": 2, "CE": 2},
}


def setup(tier, seed):
    if tier != "replay":
        tokenizer("HS")
        tokenizer("REF")


def bounds(tier):
    d = DEPTH[tier]
    return {
        "alphabet_A0": len(A0),
        "markup_alphabet": len(MK),
        "depth": d,
        "fragment_edit_templates": len(TEMPLATES),
        "char_edit_templates": len(CHAR_TEMPLATES),
        "char_alphabet": CHARS,
    }


def evaluate(case, text, cits):
    return docoracles.c02(text, cits)


def replay(case):
    if case["tok"] in ("HS", "REF"):
        tokenizer(case["tok"])
    out = []
    try:
        for steps in case.get("steps_seq") or [case.get("steps")]:
            text, cits = dd.extract(dict(case, steps=steps) if steps else case)
            out += [{"msg": f"{lab}: {det} [steps={steps}] :: {dd.brief(case)}", "label": lab} for lab, det in evaluate(case, text, cits)]
    except Exception:  # noqa: BLE001
        return out
    return out


def shards(tier, seed):
    d = DEPTH[tier]
    out = []
    for tok in ("AC", "HS", "REF"):
        out += dd.seq_shards("plain-" + tok, "A0", len(A0), d[tok], tok)
    for tok in ("AC", "HS"):
        out += dd.seq_shards(
            "markup-" + tok, "MK", len(MK), d["MK"], tok,
            extra={"markup": True, "steps_seq": [["html"], ["html", "all_whitespace"], ["html", "inline_whitespace"]]},
        )
    out += dd.seq_shards(
        "markup-inline-AC", "MK", len(MK), 2, "AC", extra={"markup": True, "steps": ["html", "inline_whitespace"]}
    )
    # generated legal mark-up (the C19 slot product: case name / citation / later mentions in style tags), each document
    # cleaned with the three step lists in both orders within one execution
    out += dd.residue_shards("markup-docs-AC", "mkdocs", "AC", 32, {"tier": tier})
    for tok in ("AC", "HS"):
        out += dd.residue_shards("transform-sensitive-" + tok, "ts", tok, 16)
    out += dd.residue_shards("post-AC", "post", "AC", 16, {"more": 1 if tier == "quick" else 2})
    for ti in range(len(TEMPLATES)):
        for tok in ("AC", "HS"):
            out += dd.residue_shards("fragedit-" + tok, "fe", tok, 16 if d["FE"] > 1 else 2, {"t": ti, "edits": d["FE"]})
    out += dd.residue_shards("pumped-AC", "pump", "AC", 16)
    for ti in range(len(CHAR_TEMPLATES)):
        for tok in ("AC", "HS"):
            out += dd.residue_shards("charedit-" + tok, "ce", tok, 16 if d["CE"] > 1 else 2, {"t": ti, "edits": d["CE"]})
    return out


def cases_of(sh):
    if sh["kind"] == "pump":
        return pumped_cases(sh)
    if sh["kind"] == "seq":
        return dd.seq_cases(sh, ALPHABETS)
    if sh["kind"] == "post":
        from mc.props import c04

        return ({"part": sh["part"], "tok": sh["tok"], "text": t} for t in dd.sliced(c04.post_documents(sh["more"]), sh["r"], sh["n"]))
    if sh["kind"] == "ts":
        return ({"part": sh["part"], "tok": sh["tok"], "text": t} for t in dd.sliced(docspace.ts_documents(3), sh["r"], sh["n"]))
    if sh["kind"] == "mkdocs":
        from mc.props import c19

        c19._TIER["t"] = sh.get("tier", "quick")  # the quick product of C19 unless this is the thorough tier
        fwd = c19.STEPS
        return (
            {"part": sh["part"], "tok": sh["tok"], "text": m, "markup": True, "steps": fwd[0], "steps_seq": seq}
            for m in dd.sliced(c19.documents(), sh["r"], sh["n"])
            for seq in (fwd + fwd[::-1],)
        )
    if sh["kind"] == "fe":
        gen = ("".join(seq) for seq, _ in docspace.edit_mutations(TEMPLATES[sh["t"]], A0, sh["edits"]))
    else:
        gen = dd.char_mutations(CHAR_TEMPLATES[sh["t"]], CHARS, sh["edits"])
    return ({"part": sh["part"], "tok": sh["tok"], "text": t} for t in dd.sliced(gen, sh["r"], sh["n"]))


PUMP_FILLERS = [" hello", "; 2 F.2d 2", " Id. at 5.", " Bar at 9,", ". Foo, supra, at 3", " 1 U.S. at 5;", "\n"]
PUMP_COPIES = [100, 300]


def pumped_cases(sh):
    """A short head (<= 2 fragments) followed by many copies of one filler fragment: long documents whose
    interesting part is short (size-dependent code paths)."""
    alpha = A0
    heads = [""] + list(alpha) + [a + b for a in alpha[:16] for b in alpha[:16]]
    for head in heads[sh["r"] :: sh["n"]]:
        for f in PUMP_FILLERS:
            for n in PUMP_COPIES:
                yield {"part": sh["part"], "tok": sh["tok"], "text": head + f * n}
            if len(head) <= 30 and len(alpha) > 0 and (head == "" or head in alpha):
                # one document beyond 64 KiB per single-fragment head (block-wise / size-switched code paths)
                yield {"part": sh["part"], "tok": sh["tok"], "text": head + f * (66000 // len(f) + 1)}


def opt_shards(tier):
    return dd.residue_shards("transform-sensitive-AC", "ts", "AC", 16) + dd.seq_shards("plain-AC", "A0", len(A0), 2, "AC")


def run_shard(sh):
    st = Stats()
    return dd.run_cases(st, sh["part"], cases_of(sh), evaluate)
