"""C13 - the default tokenizer's Aho-Corasick pre-filter is lossless.

Part A (deciding step, E6): for every extractor, explicit-state reachability over the product of
  (epsilon-NFA of its regex, built from CPython's own parse)  x  (Aho-Corasick automaton of the literal
  strings the REAL filter associates with it, read back from the real pyahocorasick automata)
over the full Unicode alphabet partitioned into atoms. Goal = NFA accepting and no literal seen.
Every goal witness is replayed against the real regex and the real filter; NFA/regex conformance is
checked on one shortest word through every NFA transition and on single-character edits of witnesses.
Part B: token-stream differential AhocorasickTokenizer(extractors=L) vs Tokenizer(extractors=L) for
the full list over D(A13,k) and for every sub-list of a 10-extractor pool.
"""

from __future__ import annotations

import itertools
import re

from mc import docspace, rx
from mc.ey import T, ser_token, short_exc
from mc.kernel import Stats, h64

ID = "C13"
TITLE = "The default tokenizer's Aho-Corasick pre-filter is lossless"
TECHNIQUE = (
    "explicit-state reachability over the product automaton (regex epsilon-NFA x literal-filter Aho-Corasick automaton) per "
    "extractor over the full Unicode alphabet (atom partition), model bound to the code by replaying witnesses, per-transition "
    "words and edited words against the real regex and the real filter; plus exhaustive differential runs of the two tokenizers"
)
TECHNIQUE += "; " + 'also: construction histories (building or editing one tokenizer must not change another), 64 KiB block boundaries'
RULE = (
    "partA: all extractors with filter strings; states = reachable (NFA state set, filter state) pairs, transitions = atom steps; "
    "partB: all documents of <= k fragments x full extractor list, every reporter string of the database in two minimal forms, and all 1024 sub-lists of a 10-extractor pool x all documents; construction histories: every sequence of <= 2 (quick) / 3 tokenizer constructions over 5 extractor lists, all tokenizers re-checked after each "
    "of <= 2 fragments of a 14-fragment alphabet. non-trivial = extractor whose product space has > 1 state / document on which "
    ">= 1 extractor matches."
)
ASSUMPTIONS = [
    "'^'/'$' occur only at the ends of extractor patterns and are modelled as epsilon (over-approximation; witnesses are replayed on the real regex as whole texts)",
    "the filter's view of a text is the per-character concatenation of the views observed for single characters (checked on all pairs of atom representatives)",
    "pyahocorasick itself implements substring search correctly (its word sets and values are read back, its matching is trusted)",
]

A13 = docspace.A0 + ["5 S.E.\u00a02d 7", "410 F.\u2007Supp. 113", "12 Cal.\u202fApp. 345", "ſupra", "İd. at 5", "ıd. at 5", "ſee Foo", "SUPRA", "IBID.", "id., at 3", "AFF'D", "1 f.2D 2", "1 U. S. 1", "K", "1 u.s. 1"]
DEPTH = {"quick": 2, "thorough": 3}
SUB_ALPHA = ["1 U.S. 1", " ", "Id. at 5", "Foo, supra", "2 F.2d 2", "1 U.S. at 5", "See ", "§ 3", "\n", "Foo v. Bar, ", "1 Minn. L. Rev. 1", "3 Thompson 4", "ſupra", "hello"]
SALIENT = ["0", "a", "Z", " ", ".", ",", "§", "\n", "é", "٣", "\xa0", "ſ", "İ", "ı", "K", " ", "-", "_"]

G = {}


class Rec:
    """Recording proxy around a real pyahocorasick automaton (what text does the code feed it?)."""

    def __init__(self, real):
        self.real = real
        self.fed = []

    def iter(self, text, *a, **k):
        self.fed.append(text)
        return self.real.iter(text, *a, **k)

    def __getattr__(self, n):
        return getattr(self.real, n)


def observe(tk, text):
    """-> (strings fed to the case-sensitive automaton, strings fed to the case-insensitive one)"""
    cs, ci = Rec(tk.case_sensitive_filter), Rec(tk.case_insensitive_filter)
    old = tk.case_sensitive_filter, tk.case_insensitive_filter
    tk.case_sensitive_filter, tk.case_insensitive_filter = cs, ci
    try:
        tk.get_extractors(text)
    finally:
        tk.case_sensitive_filter, tk.case_insensitive_filter = old
    return "".join(cs.fed), "".join(ci.fed)


def filter_words(tk):
    """extractor id -> (cs words, ci words), read back from the real automata."""
    words = {}
    for which, aut in (("cs", tk.case_sensitive_filter), ("ci", tk.case_insensitive_filter)):
        try:
            keys = list(aut.keys())
        except Exception:  # noqa: BLE001  (empty automaton)
            keys = []
        for w in keys:
            for e in aut.get(w):
                words.setdefault(id(e), {"cs": set(), "ci": set()})[which].add(w)
    return words


def _views_chunk(rng):
    tk = G["tk"]
    out = {}
    for cp in range(*rng):
        c = chr(cp)
        cs, ci = observe(tk, c)
        if cs != c or ci != c:
            out[cp] = (cs, ci)
    return out


def setup(tier, seed):
    if tier == "replay" and G:
        return
    tk = T.AhocorasickTokenizer()
    G["tk"] = tk
    G["ref"] = T.Tokenizer()
    G["words"] = filter_words(tk)
    G["unfiltered"] = {id(e) for e in tk.unfiltered_extractors}
    # predicates of all extractors
    preds = {}
    for e in tk.extractors:
        nfa = rx.nfa_of(e.regex, e.flags)
        for k, v in nfa.nodes.items():
            preds.setdefault(k, v)
    G["members"] = {k: rx.pred_members(node, fl) for k, (node, fl) in preds.items()}
    # the filter's per-character views, observed on the real code for EVERY code point
    import multiprocessing as mp

    step = 0x110000 // 32
    rngs = [(i, min(i + step, rx.NCP)) for i in range(0, rx.NCP, step)]
    with mp.get_context("fork").Pool(16) as pool:
        views = {}
        for d in pool.map(_views_chunk, rngs):
            views.update(d)
    G["views"] = views
    letters_cs = set("".join(w for d in G["words"].values() for w in d["cs"]))
    letters_ci = set("".join(w for d in G["words"].values() for w in d["ci"]))
    G["letters"] = (letters_cs, letters_ci)
    blocks = rx.refine([0] * rx.NCP, list(G["members"].values()))
    extra = [frozenset([ord(c)]) for c in letters_cs]
    byview = {}
    for cp in range(rx.NCP):
        v = views.get(cp)
        ci = v[1] if v else chr(cp)
        cs = v[0] if v else chr(cp)
        if any(c in letters_ci for c in ci) or cs != chr(cp):
            byview.setdefault((cs if cs != chr(cp) else None, ci), set()).add(cp)
    extra += [frozenset(s) for s in byview.values()]
    blocks = rx.refine(blocks, extra)
    reps = {}
    for cp in range(rx.NCP):
        b = blocks[cp]
        if b not in reps:
            reps[b] = cp
    G["atoms"] = sorted(reps.values())
    G["atom_sizes"] = len(reps)
    # per-character compositionality of the view on all pairs of atom representatives
    bad = []
    for a, b in itertools.product(G["atoms"], repeat=2):
        ca, cb = chr(a), chr(b)
        got = observe(tk, ca + cb)
        va, vb = view_of(a), view_of(b)
        want = (va[0] + vb[0], va[1] + vb[1])
        if got != want:
            lcs, lci = G["letters"]
            if any(c in lcs for c in got[0] + want[0]) or any(c in lci for c in got[1] + want[1]):
                bad.append((ca, cb, got, want))
    G["noncompositional"] = bad


def view_of(cp):
    v = G["views"].get(cp)
    return v if v else (chr(cp), chr(cp))


def bounds(tier):
    return {"alphabet": "all 1,114,112 code points, partitioned into atoms", "atoms": G.get("atom_sizes"), "extractors": len(T.EXTRACTORS), "partB_depth": DEPTH[tier], "partB_alphabet": len(A13), "sublist_pool": 10, "sublist_alphabet": len(SUB_ALPHA), "block_boundaries": BLOCK_SIZES}


def explore_extractor(e, max_witness=400):
    """-> (witness words, n_states, n_transitions, nfa)"""
    nfa = rx.nfa_of(e.regex, e.flags)
    members = G["members"]
    w = G["words"].get(id(e), {"cs": set(), "ci": set()})
    step_cs, out_cs = rx.ac_build(sorted(w["cs"]))
    step_ci, out_ci = rx.ac_build(sorted(w["ci"]))
    lcs = set("".join(w["cs"]))
    lci = set("".join(w["ci"]))
    pk = sorted(nfa.nodes)
    # per-extractor atoms: project the global atoms
    groups = {}
    for cp in G["atoms"]:
        vec = tuple(cp in members[k] for k in pk)
        if not any(vec):
            continue
        cs, ci = view_of(cp)
        fcs = cs if any(c in lcs for c in cs) else None
        fci = ci if any(c in lci for c in ci) else None
        groups.setdefault((vec, fcs, fci), cp)
    atoms = [(vec, fcs, fci, chr(cp)) for (vec, fcs, fci), cp in groups.items()]
    idx = {k: i for i, k in enumerate(pk)}
    start = (rx.closure(nfa, {nfa.start}), 0, 0)
    seen = {start: None}
    dq = __import__("collections").deque([start])
    ntr = 0
    goals = []
    while dq:
        st = dq.popleft()
        S, a, b = st
        if nfa.accept in S:
            goals.append(st)
            if len(goals) >= max_witness:
                break
        for vec, fcs, fci, rep in atoms:
            Tset = set()
            for s in S:
                for k, t in nfa.tr.get(s, ()):
                    if vec[idx[k]]:
                        Tset.add(t)
            if not Tset:
                continue
            ntr += 1
            hit = False
            a2 = 0
            if fcs is not None:
                a2 = a
                for c in fcs:
                    a2 = step_cs(a2, c)
                    hit = hit or out_cs[a2]
            b2 = 0
            if fci is not None:
                b2 = b
                for c in fci:
                    b2 = step_ci(b2, c)
                    hit = hit or out_ci[b2]
            if hit:
                continue  # a literal has been seen: absorbing, inclusion holds on this branch
            ns = (rx.closure(nfa, Tset), a2, b2)
            if ns not in seen:
                seen[ns] = (st, rep)
                dq.append(ns)
    words = []
    for g in goals:
        wd = []
        st = g
        while seen[st] is not None:
            st, rep = seen[st]
            wd.append(rep)
        words.append("".join(reversed(wd)))
    return words, len(seen), ntr, nfa


def check_extractor(i):
    """-> (violations [(label, detail, case)], harness errors, stats dict)"""
    tk = G["tk"]
    e = tk.extractors[i]
    viol, herr = [], []
    info = {"states": 0, "transitions": 0, "traces": 0}
    if not e.strings and id(e) in G["unfiltered"]:
        return viol, herr, info
    words, ns, nt, nfa = explore_extractor(e)
    info["states"], info["transitions"] = ns, nt
    members = G["members"]
    for w in words:
        info["traces"] += 1
        m = e.compiled_regex.search(w)
        if m is None:
            herr.append(f"model divergence: NFA of extractor #{i} accepts {w!r} but the real regex does not match it")
            continue
        selected = any(x is e for x in tk.get_extractors(w))
        if selected:
            herr.append(f"model divergence: filter model says extractor #{i} is skipped for {w!r} but the real filter selects it")
            continue
        odd = sorted({f"U+{ord(c):04X}" for c in w if ord(c) > 127})
        viol.append(("filter-loses-match", f"extractor #{i} {e.regex[:60]!r} matches {w!r} but the filter skips it (non-ASCII: {odd})", {"part": "A", "extractor": i, "word": w}))
    # conformance NFA -> regex: one shortest word through every transition must full-match; and the REAL
    # filter must select the extractor for each of them (binds the model's matching semantics - all
    # occurrences of every literal - to what the implementation's automaton search actually reports)
    tw = rx.transition_words(nfa, members)
    lost = 0
    for w in tw:
        info["traces"] += 1
        if e.compiled_regex.fullmatch(w) is None:
            herr.append(f"model divergence: NFA of extractor #{i} accepts {w!r} (transition word) but fullmatch fails")
            break
        for text in (w, "Foo v. Bar, " + w.strip() + " (1999)."):
            if e.compiled_regex.search(text) and not any(x is e for x in tk.get_extractors(text)):
                lost += 1
                if lost <= 2:
                    viol.append(("filter-loses-match", f"extractor #{i} {e.regex[:60]!r} matches {text!r} but the filter skips it", {"part": "A", "extractor": i, "word": text}))
    # conformance both ways on single-character edits of the shortest accepted word
    if tw:
        base = min(tw, key=len)
        for pos in range(len(base) + 1):
            cands = [base[:pos] + base[pos + 1 :]] if pos < len(base) else []
            cands += [base[:pos] + c + base[pos + 1 :] for c in SALIENT if pos < len(base)]
            cands += [base[:pos] + c + base[pos:] for c in SALIENT[:6]]
            for w in cands:
                info["traces"] += 1
                a = rx.accepts(nfa, w, members)
                b = e.compiled_regex.fullmatch(w) is not None
                if a != b:
                    herr.append(f"model divergence on {w!r} for extractor #{i}: NFA accepts={a}, real fullmatch={b}")
                    break
    return viol, herr, info


BLOCK_SIZES = [1024, 4096, 8192, 16384, 32768, 65536, 131072, 262144]
BLOCK_CITES = ["410 U.S. 113", "Id. at 5", "Foo, supra, at 3", "2 F. Supp. 2d 3", "see § 5", "1 Minn. L. Rev. 1", "Mass. Gen. Laws ch. 1, § 2"]


def check_blocks(B):
    """Long texts (size-dependent code paths, e.g. block-wise scanning): each citation placed so that it starts
    at every offset B-24 .. B+2 around a power-of-two boundary; every extractor whose pattern matches the text
    must be selected by the real filter."""
    tk = G["tk"]
    res = []
    n = 0
    word = "lorem ipsum dolor sit amet consectetur "
    for cite in BLOCK_CITES:
        sel0 = [e for e in tk.get_extractors(" " + cite + " ") if e.compiled_regex.search(" " + cite + " ")]
        for k in range(-2, 25):
            pre_len = B - k
            pre = (word * (pre_len // len(word) + 1))[: pre_len - 1] + " "
            text = pre + cite + " " + word * 3
            n += 1
            selected = tk.get_extractors(text)
            ids = {id(x) for x in selected}
            for e in sel0:
                if id(e) not in ids and e.compiled_regex.search(text, max(0, pre_len - 2)):
                    res.append(("filter-loses-match", f"extractor {e.regex[:50]!r} matches {cite!r} placed at offset {pre_len} of a {len(text)}-character text but the filter skips it", {"part": "blocks", "B": B, "cite": cite, "k": k}))
                    break
    return res, n


def stream(tokens):
    return [ser_token(t) for t in tokens]


def check_doc(text, ac, ref, label):
    try:
        a = ac.tokenize(text)
        b = ref.tokenize(text)
    except Exception as e:  # noqa: BLE001
        return [("raise", short_exc(e))], 0
    res = []
    sa, sb = stream(a[0]), stream(b[0])
    if sa != sb:
        diff = next(((x, y) for x, y in itertools.zip_longest(sa, sb) if x != y), None)
        res.append(("stream-differs", f"{label}: filtered tokenizer gives {diff[0]!r}, reference gives {diff[1]!r}"))
    ia = [(i, str(t)) for i, t in a[1]]
    ib = [(i, str(t)) for i, t in b[1]]
    if ia != ib:
        res.append(("index-differs", f"{label}: citation token lists differ: {ia} vs {ib}"))
    return res, len(b[1])


def sub_pool():
    ex = T.EXTRACTORS
    n = len(ex)
    pick = []

    def first(pred):
        for e in ex:
            if pred(e) and e not in pick:
                pick.append(e)
                return

    first(lambda e: "U\\.S\\." in e.regex and "at " not in e.regex and not e.flags)
    first(lambda e: "U\\.S\\." in e.regex and "at " in e.regex)
    first(lambda e: "F\\.2d" in e.regex and "at " not in e.regex)
    first(lambda e: "Thompson" in e.strings)
    first(lambda e: "Minn. L. Rev." in e.strings)
    pick.extend(ex[n - 5 :])  # id, supra, paragraph, stop words, section
    assert len(pick) == 10, len(pick)
    return pick


# ---- construction histories: building one tokenizer must not change what another one returns -------------------------
H_TEXTS = ["See 1 T.C. at 1.", "1 H. 1", "supra,§,", "1 CCH Unemployment Ins. Rep. 1", "12 T.C. at 345", "AFF'D§ 3", "1 U.S. at 5", "Foo v. Bar, 1 U.S. 1; id. at 5", "1 Wash. 2d 3"]
H_OPS = ["full", "noshort", "short", "reversed", "pool", "edit-own"]


def h_list(op):
    ex = T.EXTRACTORS
    if op == "full":
        return list(ex)
    if op == "noshort":
        return [e for e in ex if not e.extra.get("short")]
    if op == "short":
        return [e for e in ex if e.extra.get("short")] + list(ex[-5:])
    if op == "reversed":
        return list(reversed(ex))
    return sub_pool()


def check_history(hist):
    """Build the tokenizers named in hist one after another (all over the shared extractor objects); after each
    construction every tokenizer built so far - and the module-level default one - must still agree with the unfiltered
    reference run on its own extractor list."""
    res = []
    built = [("default", T.default_tokenizer, list(T.default_tokenizer.extractors))]
    refs = {}
    for step, op in enumerate(hist):
        if op == "edit-own":
            # a default-constructed reference tokenizer whose OWN extractor list is then edited in place (id. and section
            # extractors removed); other tokenizers must not see that edit
            own = T.Tokenizer()
            id_e, sec_e = own.extractors[-5], own.extractors[-1]
            own.extractors.remove(id_e)
            own.extractors.remove(sec_e)
            built.append((op, T.AhocorasickTokenizer(), list(T.EXTRACTORS)))
        else:
            L = h_list(op)
            built.append((op, T.AhocorasickTokenizer(extractors=L), L))
        for name, tk, lst in built:
            lst = list(tk.extractors)  # "the same extractors" = the tokenizer's own list as it is now
            key = (id(tk), tuple(id(e) for e in lst))
            if key not in refs:
                refs[key] = [T.Tokenizer(extractors=lst).tokenize(t) for t in H_TEXTS]
            for t, want in zip(H_TEXTS, refs[key]):
                got = tk.tokenize(t)
                if stream(got[0]) != stream(want[0]):
                    diff = next(((x, y) for x, y in itertools.zip_longest(stream(got[0]), stream(want[0])) if x != y), None)
                    res.append(("history-stream-differs", f"after constructing {hist[: step + 1]}, tokenizer '{name}' gives {diff[0]!r} for {t!r}, the reference with its extractor list gives {diff[1]!r}"))
                    return res
    return res


def replay(case):
    setup("replay", 0)
    if case["part"] == "H":
        return [{"msg": f"{lab}: {det}", "label": lab} for lab, det in check_history(case["hist"])]
    if case["part"] == "A":
        viol, herr, _ = check_extractor(case["extractor"])
        return [{"msg": f"{lab}: {det}", "label": lab} for lab, det, c in viol if c["word"] == case["word"]] or [
            {"msg": f"{lab}: {det}", "label": lab} for lab, det, c in viol
        ]
    if case["part"] == "blocks":
        res, _ = check_blocks(case["B"])
        return [{"msg": f"{lab}: {det}", "label": lab} for lab, det, c in res if (c["cite"], c["k"]) == (case["cite"], case["k"])]
    if case["part"] == "B":
        res, _ = check_doc(case["text"], G["tk"], G["ref"], "full list")
    else:
        pool = sub_pool()
        L = [pool[i] for i in case["sublist"]]
        res, _ = check_doc(case["text"], T.AhocorasickTokenizer(extractors=L), T.Tokenizer(extractors=L), f"sub-list {case['sublist']}")
    return [{"msg": f"{lab}: {det} :: text={case['text']!r}", "label": lab} for lab, det in res]


def shards(tier, seed):
    out = []
    n = len(T.EXTRACTORS)
    for r in range(64):
        out.append({"part": "A", "r": r, "n": 64})
    for sh in docspace.shards_for(A13, DEPTH[tier], 1):
        out.append({"part": "B", "depth": DEPTH[tier], **sh})
    for r in range(32):
        out.append({"part": "S", "r": r, "n": 32})
    for r in range(32):
        out.append({"part": "BS", "r": r, "n": 32})
    for k in (1, 2) if tier == "quick" else (1, 2, 3):
        for hist in itertools.product(H_OPS, repeat=k):
            out.append({"part": "H", "hist": list(hist)})  # one freshly forked process per history
    for bi in range(len(BLOCK_SIZES)):
        out.append({"part": "blocks", "bi": bi})
    out.append({"part": "meta"})
    return out


def run_shard(sh):
    st = Stats()
    p = st.part(sh["part"])
    tk = G["tk"]
    if sh["part"] == "meta":
        if G["noncompositional"]:
            st.extra["harness_errors"] = [f"filter view is not per-character compositional on filter letters: {G['noncompositional'][:3]!r}"]
        st.extra["atoms"] = G["atom_sizes"]
        st.extra["view_pairs_checked"] = len(G["atoms"]) ** 2
        st.extra["code_points_observed"] = rx.NCP
        st.traces += len(G["atoms"]) ** 2
        return st
    if sh["part"] == "H":
        res = check_history(sh["hist"])
        st.evaluations += 1
        st.traces += len(sh["hist"]) * len(H_TEXTS)
        st.transitions += len(sh["hist"])
        p["evaluations"] += 1
        k = h64(["H", sh["hist"]])
        st.states.add(k)
        st.nontrivial.add(k)
        st.outcomes.add(h64([r[0] for r in res]))
        for lab, det in res:
            st.violation({"part": "H", "hist": sh["hist"]}, f"{lab}: {det}", label="H-" + lab)
        return st
    if sh["part"] == "A":
        for i in range(sh["r"], len(tk.extractors), sh["n"]):
            viol, herr, info = check_extractor(i)
            st.evaluations += 1
            p["evaluations"] += 1
            st.transitions += info["transitions"]
            st.traces += info["traces"]
            st.extra["product_states"] = st.extra.get("product_states", 0) + info["states"]
            st.states.add(h64(["A", i]))
            if info["states"] > 1:
                st.nontrivial.add(h64(["A", i]))
                if not st.samples:
                    e = tk.extractors[i]
                    st.sample({"part": "A", "extractor": i, "regex": e.regex[:120], "filter_words": sorted(G["words"].get(id(e), {}).get("cs", set()) | G["words"].get(id(e), {}).get("ci", set()))[:6], "product_states": info["states"]})
            st.outcomes.add(h64([bool(viol), info["states"] > 1]))
            if herr:
                st.extra.setdefault("harness_errors", []).extend(herr[:2])
            for lab, det, case in viol:
                odd = "".join(sorted({c for c in case["word"] if ord(c) > 127}))
                fp = f"C13|{tk.extractors[i].regex[:40]}|{odd}"
                st.violation(case, f"{lab}: {det}", fingerprint=fp, label=f"{lab}-{odd or 'ascii'}")
        return st
    if sh["part"] == "B":
        ref = G["ref"]
        seen = set()
        for idx, text in docspace.walk(A13, sh["depth"], sh):
            st.transitions += 1
            if text in seen:
                continue
            seen.add(text)
            res, nt = check_doc(text, tk, ref, "full list")
            st.evaluations += 1
            st.traces += 1
            p["evaluations"] += 1
            k = h64("B" + text)
            st.states.add(k)
            if nt:
                st.nontrivial.add(k)
            st.outcomes.add(h64([nt, [r[0] for r in res]]))
            for lab, det in res:
                st.violation({"part": "B", "text": text}, f"{lab}: {det} :: text={text!r}", label=f"B-{lab}")
        return st
    if sh["part"] == "blocks":
        B = BLOCK_SIZES[sh["bi"]]
        res, n = check_blocks(B)
        st.evaluations += n
        st.traces += n
        st.transitions += n
        p["evaluations"] += n
        st.states.add(h64(["blocks", B]))
        st.nontrivial.add(h64(["blocks", B]))
        for lab, det, case in res:
            st.violation(case, f"{lab}: {det}", label="blocks-" + lab)
        return st
    if sh["part"] == "BS":
        # every reporter/journal/law string of the database in the two minimal forms, full extractor list
        ref = G["ref"]
        for rep in sorted(T.EDITIONS_LOOKUP)[sh["r"] :: sh["n"]]:
            for text in (f"12 {rep} 345", f"See 12 {rep} at 345."):
                res, nt = check_doc(text, tk, ref, "full list")
                st.evaluations += 1
                st.traces += 1
                st.transitions += 1
                p["evaluations"] += 1
                k = h64("BS" + text)
                st.states.add(k)
                if nt:
                    st.nontrivial.add(k)
                st.outcomes.add(h64([nt, [r[0] for r in res]]))
                for lab, det in res:
                    st.violation({"part": "B", "text": text}, f"{lab}: {det} :: text={text!r}", label=f"BS-{lab}")
        return st
    pool = sub_pool()
    texts = [""] + SUB_ALPHA + [a + b for a in SUB_ALPHA for b in SUB_ALPHA]
    subs = [s for k in range(0, 11) for s in itertools.combinations(range(10), k)]
    for sub in subs[sh["r"] :: sh["n"]]:
        L = [pool[i] for i in sub]
        try:
            ac = T.AhocorasickTokenizer(extractors=L)
        except Exception as e:  # noqa: BLE001
            st.violation({"part": "S", "sublist": list(sub), "text": ""}, f"raise: constructing AhocorasickTokenizer(extractors={list(sub)}): {short_exc(e)}", label="S-raise")
            continue
        ref = T.Tokenizer(extractors=L)
        for text in texts:
            res, nt = check_doc(text, ac, ref, f"sub-list {list(sub)}")
            st.evaluations += 1
            st.traces += 1
            st.transitions += 1
            p["evaluations"] += 1
            k = h64(["S", sub, text])
            st.states.add(k)
            if nt:
                st.nontrivial.add(k)
            st.outcomes.add(h64([nt, [r[0] for r in res]]))
            for lab, det in res:
                st.violation({"part": "S", "sublist": list(sub), "text": text}, f"{lab}: {det} :: text={text!r}", label=f"S-{lab}")
    return st
