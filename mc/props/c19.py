"""C19 - markup mode only adds well-founded reference citations."""

from __future__ import annotations

import itertools

from mc.ey import M, clean_text, get_citations, ser, short_exc, tokenizer
from mc.kernel import Stats, h64

ID = "C19"
TITLE = "Markup mode only adds well-founded reference citations"
TECHNIQUE = (
    "bounded-exhaustive exploration of get_citations(markup_text=...): complete slot product of mark-up decorations of "
    "generated legal text x cleaning step lists, compared citation-by-citation with the run on the cleaned plain text; "
    "every reference citation checked for a founding full citation, a valid name and valid offsets"
)
TECHNIQUE += "; " + 'a quarter of the documents again under python -O'
RULE = (
    "documents = complete product of slots (wrapper, case-name decoration, citation decoration, two later-mention slots, "
    "closing) x 3 step lists x {AC, HS in thorough}; distinct = distinct (markup, steps); non-trivial = markup-mode run "
    "returned >= 1 reference citation or the document has a later mention in a style tag."
)
ASSUMPTIONS = [
    "name-validity rule restated by the oracle: length > 2, initial upper-case letter, no trailing '.', not numeric, not one of "
    "{state, united states, people, commonwealth, mass}; generated names stay inside that reading",
    "well-formed generated markup only; step lists always contain 'html'",
]

PRE = ["<p>", "<p>See ", "<div><p>In ", ""]
NAME = [
    "Foo v. Bar, ",
    "<i>Foo v. Bar</i>, ",
    "<em>Foo</em> v. <em>Bar</em>, ",
    "<i>Foo v. Bar,</i> ",
    "<i>Smith&amp;Co v. Bar</i>, ",
    "<i>State v. Bar</i>, ",
    "<i>Foo v. bar</i>, ",
    "<i>Foo v. Bar Co.</i>, ",
    "<i>Roe v. Li</i>, ",
    "<i>Foo&nbsp;v.&nbsp;Bar</i>, ",  # a two-letter party name: too short to found a reference
]
CITE = ["1 U.S. 1 (1999).", "1&nbsp;U.S.&nbsp;1 (1999).", "1 U.S.\u00a01, 5 (1999);", "1 U.S. 1, 5 (1999);", "1 U.S.\n 1.", "<b>1 U.S. 1</b> (1999).", "1 U.S. 1, 2 F.2d 2 (1999)."]
MID = [
    " The court in <i>Bar</i> held x.",
    " In <em>Foo,</em> we said.",
    " <i>Bar</i> at 7 says.",
    " See <i>Id.</i> at 5.",
    " Bar at 9. ",
    " <i>Bar, </i>supra, at 3.",
    "</p><p><i> Bar </i>again.",
    " In <i>State</i> we held.",
    " In <i>bar</i> we held.",
    " <i>Foo v.\n Bar</i> again.",
    "</p><p><i>Bar</i> again.",
    " (<em>Bar,</em> dissenting).",
    " In <i>Li</i> we held.",
    " We nevertheless follow <em>Bar</em>",
    " We nevertheless follow <em>Bar.</em>",
    " We dis\u00ad\n        agree with that reading.\n   Bar at 7 says so.",  # a soft hyphen at a line end, as hyphenating tools write it
    " We dis&shy;agree. See Bar at 9 and\u200b <i>Bar</i> too.",
    # a second case whose parenthetical mentions the first one in a style tag, directly followed by a supra / short form
    " Doe v. Roe, 2 U.S. 2 (1991) (citing <em>Bar</em>, supra, at 5).",
    " Doe v. Roe, 2 U.S. 2 (1991) (citing <em>Bar,</em> 1 U.S., at 5).",
    " Li at 7 says, and <em>Roe</em> too.",
    "",
]
END = ["</p>", "</p></div>", "", "</p>\n"]
STEPS = [["html"], ["html", "all_whitespace"], ["html", "inline_whitespace"]]
OWN_DISALLOWED = {"state", "united states", "people", "commonwealth", "mass"}


def own_valid_name(name):
    return (
        isinstance(name, str)
        and len(name) > 2
        and name[0].isupper()
        and not name.endswith(".")
        and not name.isdigit()
        and name.lower() not in OWN_DISALLOWED
    )


def bounds(tier):
    return {"slots": {"pre": len(PRE), "name": len(NAME), "cite": len(CITE), "mid": len(MID), "mid2": len(MID), "end": len(END)}, "step_lists": STEPS, "tokenizers": ["AC"] + (["HS"] if tier == "thorough" else [])}


_TIER = {"t": "thorough"}


def documents():
    # the second later-mention slot ranges over the whole domain in the thorough tier, over the first 5 values and '' in quick
    mid2_dom = MID if _TIER["t"] == "thorough" else MID[:5] + [""]
    for pre, name, cite, mid, mid2, end in itertools.product(PRE, NAME, CITE, MID, mid2_dom, END):
        if pre.startswith("<div") != end.endswith("</div>"):
            continue
        if (pre == "") != (end == ""):
            continue
        if pre == "" and "</p><p>" in mid + mid2:
            continue
        yield pre + name + cite + mid + mid2 + end


def norm(s):
    return " ".join(s.split())


def check(markup, steps, tok):
    tk = tokenizer(tok)
    try:
        plain = clean_text(markup, steps)
        a = get_citations(markup_text=markup, clean_steps=steps, tokenizer=tk)
        b = get_citations(plain, tokenizer=tk)
    except Exception as e:  # noqa: BLE001
        return [("raise", short_exc(e))], 0
    res = []
    a_non = [ser(c) for c in a if not isinstance(c, M.ReferenceCitation)]
    b_non = [ser(c) for c in b if not isinstance(c, M.ReferenceCitation)]
    if a_non != b_non:
        diff = next((x, y) for x, y in itertools.zip_longest(a_non, b_non) if x != y)
        res.append(("nonref-differs", f"markup mode and plain mode disagree on non-reference citations: {diff[0]} vs {diff[1]}"))
    nref = 0
    for mode, cits in (("markup", a), ("plain", b)):
        fulls = [c for c in cits if isinstance(c, M.FullCaseCitation)]
        for r in cits:
            if not isinstance(r, M.ReferenceCitation):
                continue
            nref += 1
            s, e = r.span()
            fs, fe = r.full_span()
            if not (0 <= fs <= s <= e <= fe <= len(plain)):
                res.append((f"ref-offsets-{mode}", f"reference offsets full=({fs},{fe}) span=({s},{e}) invalid for cleaned text of length {len(plain)}"))
                continue
            txt = norm(plain[s:e])
            ok = False
            for f in fulls:
                if f.span()[1] <= s:
                    for k in M.ReferenceCitation.name_fields:
                        v = getattr(f.metadata, k, None)
                        if v and own_valid_name(v) and norm(v) in txt:
                            ok = True
            if not ok:
                res.append((f"ref-unfounded-{mode}", f"reference {plain[s:e]!r}@({s},{e}) has no preceding full case citation with a valid party/resolved name inside it; parties: {[(f.metadata.plaintiff, f.metadata.defendant, f.span()) for f in fulls]}"))
    return res, nref


def check_all_steps(markup, tok):
    """One execution = the three step lists applied in order to the same markup (the same document cleaned in
    different ways within one process)."""
    out, nref = [], 0
    for steps in STEPS:
        res, n = check(markup, steps, tok)
        nref += n
        out += [(lab, f"{det} [steps={steps}]") for lab, det in res]
    return out, nref


def replay(case):
    if case["tok"] == "HS":
        tokenizer("HS")
    res, _ = check_all_steps(case["markup"], case["tok"])
    return [{"msg": f"{lab}: {det} :: markup={case['markup']!r}", "label": lab} for lab, det in res]


def setup(tier, seed):
    if tier in ("quick", "thorough"):
        _TIER["t"] = tier
    if tier == "thorough":
        tokenizer("HS")


def shards(tier, seed):
    toks = ["AC"] + (["HS"] if tier == "thorough" else [])
    return [{"tok": t, "r": r, "n": 32} for t in toks for r in range(32)]


def opt_shards(tier):
    _TIER["t"] = "quick"
    return [{"tok": "AC", "r": r, "n": 64} for r in range(16)]  # every fourth document of the quick product


def run_shard(sh):
    st = Stats()
    p = st.part(sh["tok"])
    for markup in itertools.islice(documents(), sh["r"], None, sh["n"]):
        st.evaluations += len(STEPS)
        st.traces += len(STEPS)
        st.transitions += len(STEPS)
        p["evaluations"] += len(STEPS)
        key = h64([sh["tok"], markup])
        st.states.add(key)
        res, nref = check_all_steps(markup, sh["tok"])
        if nref:
            st.nontrivial.add(key)
            if not st.samples:
                st.sample({"markup": markup, "step_lists": STEPS, "references": nref})
        st.outcomes.add(h64([nref, [r[0] for r in res]]))
        for lab, det in res:
            case = {"tok": sh["tok"], "markup": markup}
            st.violation(case, f"{lab}: {det} :: markup={markup!r}", label=lab)
    return st
