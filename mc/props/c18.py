"""C18 - year and edition guesses are sound; disambiguation only removes."""

from __future__ import annotations

from datetime import date

from mc import docdriver as dd
from mc import docoracles, docspace
from mc.ey import M, T, get_citations, tokenizer
from mc.kernel import Stats, h64
from mc.props import c17

ID = "C18"
TITLE = "Year and edition guesses are sound; disambiguation only removes"
TECHNIQUE = (
    "bounded-exhaustive exploration: full-domain enumeration of every reporter string of reporters-db x every "
    "edition-boundary year x every year position x {own, parallel} through get_citations(), plus all fragment "
    "sequences <= depth k; remove_ambiguous compared with the filtered default run on every document"
)
TECHNIQUE += "; " + 'also: every 10th (thorough: every) year since 1600, boundary years of every edition a string can denote, repeated citations, later mentions, year-carrying example citations of reporters-db'
RULE = (
    "editions: every key of EDITIONS_LOOKUP (all edition names and variations) rendered as 'Foo v. Bar, 12 R 345'; those "
    "with >=2 candidate editions x years {none, start-1, start, end, end+1 of each edition the string can denote (exact or variation), every 10th year (quick) / every year (thorough) from 1600, 1599, 1600, this year, "
    "next year, next year+1, 0000, 9999} x 10 year positions (one followed by a later mention of a party) (two of them cite the same volume/page a second time without a year); docs: all concatenations of <=k fragments of A2. "
    "distinct = distinct text; non-trivial = a resource citation with >=2 candidate editions or a year was returned."
)
ASSUMPTIONS = [
    "the clock does not pass New Year during a run (oracle and eyecite both read today's date)",
    "'own year' = the citation shares its full-span start with no other full case citation",
    "finite volumes/pages (12, 345) and party names for the full-domain part",
]

A2 = c17.A2
ALPHABETS = {"A2": A2}
DEPTH = {"quick": {"AC": 3, "HS": 2, "REF": 2}, "thorough": {"AC": 4, "HS": 3, "REF": 2}}
POSITIONS = ["post", "court", "bracket", "pre", "range", "parallel-after", "parallel-first", "twice-after", "twice-before", "ref-after"]
_REPS = {}
_TIER = {"t": "quick"}


def setup(tier, seed):
    if tier != "replay":
        tokenizer("HS")
        tokenizer("REF")
    _REPS["all"] = sorted(T.EDITIONS_LOOKUP)
    if tier in ("quick", "thorough"):
        _TIER["t"] = tier


def bounds(tier):
    return {"reporter_strings": len(_REPS.get("all", [])), "year_positions": POSITIONS, "alphabet_A2": len(A2), "depth": DEPTH[tier]}


def render(rep, ys, pos):
    core = f"12 {rep} 345"
    if pos == "post":
        return f"Foo v. Bar, {core}" + (f" ({ys})." if ys else ".")
    if pos == "court":
        return f"Foo v. Bar, {core} (2d Cir. {ys})."
    if pos == "bracket":
        return f"Foo v. Bar, {core} [{ys}]."
    if pos == "pre":
        return f"Foo v. Bar ({ys}) {core}."
    if pos == "range":
        return f"Foo v. Bar, {core} ({ys}-95)."
    if pos == "parallel-after":
        return f"Foo v. Bar, 1 U.S. 1, {core} ({ys})."
    if pos == "parallel-first":
        return f"Foo v. Bar, {core}, 1 U.S. 1 ({ys})."
    if pos == "twice-after":  # the same citation again without a year (equal by value, ambiguous on its own)
        return f"Foo v. Bar, {core} ({ys}). See {core}."
    if pos == "ref-after":  # a later 'Name at N' mention of a party (a reference citation, which is never a resource citation)
        return f"In Foo v. Bar, {core} ({ys}), the court held x. As explained in Bar at 5, the rule is narrow."
    if pos == "twice-before":
        return f"See {core}. Foo v. Bar, {core} ({ys})."
    raise KeyError(pos)


def years_for(cands):
    now = date.today().year
    ys = {1599, 1600, now, now + 1, now + 2, 0, 9999}
    for e in cands:
        if e.start:
            ys |= {e.start.year - 1, e.start.year}
        if e.end:
            ys |= {e.end.year, e.end.year + 1}
    return sorted(ys)


def evaluate(case, text, cits):
    out = docoracles.c18(text, cits)
    try:
        removed = get_citations(text, remove_ambiguous=True, tokenizer=tokenizer(case["tok"]))
    except Exception:  # noqa: BLE001
        return out
    out += docoracles.c18_disamb(cits, removed)
    return out


def nontrivial(case, text, cits):
    for c in cits:
        if isinstance(c, M.ResourceCitation) and (c.year is not None or len(c.exact_editions or c.variation_editions) > 1):
            return True
    return False


def outcome(case, text, cits):
    return h64([(type(c).__name__, getattr(c, "year", None), bool(getattr(c, "edition_guess", None)), len(getattr(c, "exact_editions", ()) or getattr(c, "variation_editions", ()))) for c in cits])


def replay(case):
    if case["tok"] in ("HS", "REF"):
        tokenizer(case["tok"])
    try:
        text, cits = dd.extract(case)
    except Exception:  # noqa: BLE001
        return []
    return [{"msg": f"{lab}: {det} :: {dd.brief(case)}", "label": lab} for lab, det in evaluate(case, text, cits)]


TEMPLATES = [
    ["Foo v. Bar, ", "1 U.S. 1", ", 5-6", " (1999)", ". ", "See ", "Bar at 9", ", ", "1 Rob. 1", ". "],
    ["Smith v. Jones (2001) ", "1 Wash. 2d 3", ", ", "12 Marsh.(Ky.) 345 (1829)", "; ", "Jones at 7", ", ", "1 Marsh. 2", " (1999)"],
    ["Foo v. Bar, ", "1 Rob. 1", ", ", "2 F.2d 2", " (1850)", ". ", "Id. at 5", "; ", "1 Rob. at 3", " (x)"],
    # a rejected leading year on the first of two parallel citations, the second with its own year and an ambiguous reporter
    ["Foo v. Bar, ", "(2100) ", "1 U.S. 1", ", ", "12 Marsh.(Ky.) 345 (1829)", ". "],
]
EDIT_ALPHA = A2[:20] + ["1 Rob. 1", "1 Wash. 2d 3", "Bar at 9", " (1850)", "1 Marsh. 2"]


def shards(tier, seed):
    d = DEPTH[tier]
    out = []
    for ti in range(len(TEMPLATES)):
        out += dd.residue_shards("fragedit-AC", "fe", "AC", 4 if tier == "quick" else 16, {"t": ti, "edits": 1 if tier == "quick" else 2})
    for tok in ("AC", "HS") if tier == "thorough" else ("AC",):
        out += dd.residue_shards("editions-" + tok, "ed", tok, 32)
    out += dd.residue_shards("examples-AC", "ex", "AC", 8)
    for rot in range(len(VOL_FORMS)):
        out += dd.residue_shards("volume-order-AC", "vo", "AC", 4, {"rot": rot})
    for tok in ("AC", "HS", "REF"):
        out += dd.seq_shards("plain-" + tok, "A2", len(A2), d[tok], tok)
    return out


def example_cases(sh):
    """Example citations of reporters-db that carry a year inside the citation, with boundary and out-of-range years."""
    from mc import examples

    for kind, key, ex in examples.all_examples()[sh["r"] :: sh["n"]]:
        for exy in examples.with_years(ex):
            yield {"part": sh["part"], "tok": sh["tok"], "text": f"Foo v. Bar, {exy}."}
            yield {"part": sh["part"], "tok": sh["tok"], "text": f"See {exy} (x)."}


VOL_FORMS = [("12", "345"), ("1", "5"), ("2", "5"), ("100", "5A"), ("2", "xii")]


def volume_order_cases(sh):
    """The candidate editions of a reporter string also depend on the volume and the page format. For every ambiguous string
    and every boundary year the five volume/page forms are extracted one after another in one process, starting with form
    number sh['rot'] (each rotation in its own shard = its own process): whichever form comes first must not decide the
    others (a memo keyed on string and year alone would)."""
    tok = sh["tok"]
    tk = tokenizer(tok)
    for rep in dd.sliced(iter(_REPS["all"]), sh["r"], sh["n"]):
        probe = [c for c in get_citations(f"Foo v. Bar, 1 {rep} 5.", tokenizer=tk) if isinstance(c, M.ResourceCitation) and c.matched_text() == f"1 {rep} 5"]
        if len(probe) != 1 or len(set(probe[0].exact_editions or probe[0].variation_editions)) < 2:
            continue
        ys = years_for(list(probe[0].exact_editions) + list(probe[0].variation_editions))
        forms = VOL_FORMS[sh["rot"] :] + VOL_FORMS[: sh["rot"]]
        for y in ys:
            for vol, page in forms:
                yield {"part": sh["part"], "tok": tok, "text": f"Foo v. Bar, {vol} {rep} {page} ({y:04d})."}


def edition_cases(sh):
    tok = sh["tok"]
    tk = tokenizer(tok)
    for rep in dd.sliced(iter(_REPS["all"]), sh["r"], sh["n"]):
        base = f"Foo v. Bar, 12 {rep} 345."
        yield {"part": sh["part"], "tok": tok, "text": base}
        yield {"part": sh["part"], "tok": tok, "text": f"In Foo v. Bar, 12 {rep} 345, the court held x. As explained in Bar at 5, the rule is narrow."}
        probe = [c for c in get_citations(base, tokenizer=tk) if isinstance(c, M.ResourceCitation) and c.matched_text() == f"12 {rep} 345"]
        if len(probe) != 1:
            continue
        cand = probe[0].exact_editions or probe[0].variation_editions
        if len(set(cand)) < 2:
            continue
        # boundary years of every edition the string can denote at all (exact names AND variations: a year that only
        # a non-candidate edition covers must not produce a guess), plus every 10th year (every year in thorough)
        ys = set(years_for(list(probe[0].exact_editions) + list(probe[0].variation_editions)))
        ys |= set(range(1600, date.today().year + 2, 1 if _TIER["t"] == "thorough" else 10))
        for y in sorted(ys):
            for pos in POSITIONS:
                yield {"part": sh["part"], "tok": tok, "text": render(rep, "%04d" % y, pos)}



def run_shard(sh):
    st = Stats()
    if sh["kind"] == "fe":
        gen = ("".join(seq) for seq, _ in docspace.edit_mutations(TEMPLATES[sh["t"]], EDIT_ALPHA, sh["edits"]))
        cases = ({"part": sh["part"], "tok": sh["tok"], "text": t} for t in dd.sliced(gen, sh["r"], sh["n"]))
        return dd.run_cases(st, sh["part"], cases, evaluate, nontrivial=nontrivial, outcome=outcome)
    if sh["kind"] == "vo":
        # the same text recurs in other rotations (other processes): the text alone is not the state here
        cases = ({**c, "opts": None, "text": c["text"]} for c in volume_order_cases(sh))
        return dd.run_cases(st, sh["part"] + f"-rot{sh['rot']}", cases, evaluate, nontrivial=nontrivial, outcome=outcome)
    if sh["kind"] == "ex":
        return dd.run_cases(st, sh["part"], example_cases(sh), evaluate, nontrivial=nontrivial, outcome=outcome)
    cases = dd.seq_cases(sh, ALPHABETS) if sh["kind"] == "seq" else edition_cases(sh)
    return dd.run_cases(st, sh["part"], cases, evaluate, nontrivial=nontrivial, outcome=outcome)
