"""C10 - annotations enclose exactly the cited characters, in order."""

from __future__ import annotations

import itertools
from bisect import bisect_left, bisect_right

from mc import annot
from mc.ey import short_exc
from mc.kernel import Stats, h64

ID = "C10"
TITLE = "Annotations enclose exactly the cited characters, in order"
TECHNIQUE = (
    "bounded-exhaustive exploration of annotate_citations() and SpanUpdater: all plain texts/span sets without source; "
    "all forced-alignment sources (foreign insertions make the minimal diff unique, so the generator knows the source "
    "position of every plain character); all ordered pairs of strings for monotonicity / range of offset translation"
)
TECHNIQUE += "; " + 'also: periodic plain texts, > 200-character texts with insertions on every subset of <= 3 lines, non-ASCII inserted material, annotations as one-shot iterators; a subset again under python -O'
RULE = (
    "nosource: plain = all strings <= 5 over {a,b,' '} x all ordered tuples of <= 2 (quick) / 3 (thorough, |plain| <= 4) spans; "
    "forced: plains of distinct and repeated letters x all placements of <= k insertions from {<i>,</i>,<b>,</b>,\\n,\\t\\t} x "
    "all <= 2-span tuples x 2 engines; the same for periodic plains (abababab, ...) with <= 2 (quick) / 3 insertions from {\\t,<i>}; long: 3 plain texts of > 200 characters (one made of repeated identical lines) x 4 insertion patterns (repeated lines: + insertions on every subset of <= 3 lines) x all word-run spans "
    "and adjacent pairs x 2 engines; updater: all ordered pairs of strings <= 4 over {x,y,<} x 2 engines x 2 bisect "
    "functions x all offsets. non-trivial = >= 1 annotation that is non-empty and not overlapped by an earlier one."
)
ASSUMPTIONS = [
    "processing order of annotations is eyecite's documented sorted(annotations); 'earlier' refers to that order",
    "inserted material uses characters that do not occur in the plain text",
    "tiny alphabets and lengths",
]

INSERTS = ["<i>", "</i>", "<b>", "</b>", "\n", "\t\t"]
PLAINS = {"quick": ["wxyz", "wwxw"], "thorough": ["wxyz", "wxyzu", "wwxw", "abab", "w w"]}
KMAX = {"quick": 3, "thorough": 3}
# repeated content (period 2 and 3): a diff engine that matches the longest common block greedily picks the wrong copy
REPEATED = {"quick": ["abababab"], "thorough": ["abababab", "abcabcabc", "ab ab ab"]}


def bounds(tier):
    return {"nosource_alphabet": ["a", "b", " "], "nosource_max_len": 5, "forced_plains": PLAINS[tier], "forced_inserts": INSERTS, "periodic_plains": REPEATED[tier], "max_insertions": KMAX[tier], "updater_alphabet": ["x", "y", "<"], "updater_max_len": 4}


def check_enclose(plain, source, pos, ss, mode, dmp):
    """source None: pos is identity. Returns [(label, detail)]."""
    marks = annot.sentinels(len(ss))
    try:
        out = annot.annotate(plain, ss, source, mode, dmp, marks)
    except Exception as e:  # noqa: BLE001
        return [("raise", short_exc(e))], 0
    try:
        out_it = annot.annotate(plain, ss, source, mode, dmp, marks, one_shot=True)
    except Exception as e:  # noqa: BLE001
        return [("iterator-raise", short_exc(e))], 0
    if out_it != out:
        return [("iterator-differs", f"annotations passed as a one-shot iterator give {out_it!r}, as a list {out!r}")], 0
    text = plain if source is None else source
    order, clean = annot.clean_annotations(ss, marks)
    res = []
    where = []
    for j in clean:
        s, e = ss[j]
        lo = s if pos is None else pos[s]
        hi = e if pos is None else pos[e - 1] + 1
        want = marks[j][0] + text[lo:hi] + marks[j][1]
        n = out.count(want)
        if n != 1 or out.count(marks[j][0]) != 1 or out.count(marks[j][1]) != 1:
            res.append(("enclose", f"annotation {j} span {ss[j]} should appear once as {want!r}; output {out!r}"))
        where.append(out.find(marks[j][0]))
    if all(w >= 0 for w in where) and where != sorted(where):
        res.append(("order", f"annotations out of span order in {out!r}"))
    return res, len(clean)


DIFFLIB_FP = "C10|get_diff_steps_builtin|difflib-alignment-not-insert-only"


def difflib_misaligns(plain, source):
    """True when Python's own difflib (asked directly, not through eyecite) aligns an insertion-only pair with
    deletions/replacements: its greedy longest-block heuristic matched a repeated stretch of the plain text with a
    later/earlier copy in the source. This is the call-site class of the one known finding of C10 (use_dmp=False)."""
    from difflib import SequenceMatcher

    return any(op[0] in ("delete", "replace") for op in SequenceMatcher(a=plain, b=source, autojunk=False).get_opcodes())


def check_updater(a, b, dmp):
    from eyecite.annotate import SpanUpdater

    res = []
    try:
        u = SpanUpdater(a, b, use_dmp=dmp)
    except Exception as e:  # noqa: BLE001
        return [("updater-init-raise", short_exc(e))]
    for bis, name in ((bisect_left, "left"), (bisect_right, "right")):
        prev = None
        for o in range(len(a) + 1):
            try:
                r = u.update(o, bis)
            except Exception as e:  # noqa: BLE001
                res.append((f"updater-raise-{name}", f"update({o}) {short_exc(e)}"))
                continue
            if not (0 <= r <= len(b)):
                res.append((f"updater-range-{name}", f"update({o})={r} outside 0..{len(b)}"))
            if prev is not None and r < prev:
                res.append((f"updater-monotone-{name}", f"update({o - 1})={prev} > update({o})={r}"))
            prev = r
    return res


def lab_is_alignment(res):
    return all(lab in ("enclose", "order", "iterator-differs") for lab, _ in res)


LONG_PLAINS = [
    "See Roe v. Wade, 410 U.S. 113, 153 (1973); Doe v. Bolton, 410 U.S. 179 (1973). The court in Griswold v. Connecticut, "
    "381 U.S. 479, 484 (1965), had said as much. Id. at 485. See also Eisenstadt v. Baird, 405 U.S. 438 (1972); Roe, supra, at 152.",
    "aa bb aa bb aa bb cc aa bb aa dd aa bb aa bb aa bb cc aa bb aa dd aa bb aa bb aa bb cc aa bb aa dd aa bb aa bb aa bb cc aa bb "
    "aa dd aa bb aa bb aa bb cc aa bb aa dd aa bb aa bb aa bb cc aa bb aa dd aa bb aa bb aa bb cc aa bb aa dd ee",
    ("See Roe v. Wade, 410 U.S. 113 (1973).\n" * 7) + "Id. at 153; Doe v. Bolton, 410 U.S. 179 (1973).\n",  # repeated identical lines
]


def long_sources(plain):
    """Sources with foreign insertions at word granularity; -> (name, source, pos)."""
    def build(ins_before):  # ins_before(i) = string inserted before plain[i] (i == len: at the end)
        parts, pos, L = [], [], 0
        for i in range(len(plain) + 1):
            t = ins_before(i)
            parts.append(t)
            L += len(t)
            if i < len(plain):
                pos.append(L)
                parts.append(plain[i])
                L += 1
        return "".join(parts), pos

    n = len(plain)
    if "\n" in plain:  # a line break would not be foreign to this text: use a form feed
        yield ("ff-after-space",) + build(lambda i: "\f" if 0 < i <= n and plain[i - 1] == " " else "")
        yield ("tab-before-digit",) + build(lambda i: "\t" if i < n and plain[i].isdigit() and (i == 0 or not plain[i - 1].isdigit()) else "")
        yield ("q-on-every-line",) + build(lambda i: ("</q>" if i < n and plain[i] == "\n" else "") + ("<q>" if i == 0 or (i < n and plain[i - 1] == "\n") else ""))
        yield ("tab-on-two-lines",) + build(lambda i: "\t\t" if i in (5, 43) else "")
        # insertions on every subset of <= 3 lines (the other lines stay byte-identical to the plain text, and to
        # each other): line-level heuristics of a diff engine must not mis-align repeated lines
        line_starts = [0] + [i + 1 for i, c in enumerate(plain) if c == "\n" and i + 1 < n]
        for k in (1, 2, 3):
            for sub in itertools.combinations(range(len(line_starts)), k):
                marks = {}
                for li in sub:
                    marks[line_starts[li] + 2] = "\t"
                    marks[line_starts[li] + 17] = "<q>"
                    marks[line_starts[li] + 29] = "</q>"
                yield (f"lines-{sub}",) + build(lambda i, marks=marks: marks.get(i, ""))
        return
    yield ("nl-after-space",) + build(lambda i: "\n" if 0 < i <= n and plain[i - 1] == " " else "")
    yield ("tab-before-digit",) + build(lambda i: "\t" if i < n and plain[i].isdigit() and (i == 0 or not plain[i - 1].isdigit()) else "")
    o_tag, c_tag = ("<i>", "</i>") if not (set("<i>/") & set(plain)) else ("\u00ab", "\u00bb")  # foreign to the plain text

    def tags(i):
        out = ""
        if 0 < i <= n and plain[i - 1] != " " and (i == n or plain[i] == " "):
            out += c_tag
        if i < n and plain[i] != " " and (i == 0 or plain[i - 1] == " "):
            out += o_tag
        return out
    yield ("i-around-words",) + build(tags)
    yield ("nl-every-3rd-space",) + build(lambda i: "\n\n" if 0 < i <= n and plain[i - 1] == " " and plain[:i].count(" ") % 3 == 0 else "")


def word_spans(plain, maxwords=3):
    ws = " \n"
    starts = [i for i in range(len(plain)) if plain[i] not in ws and (i == 0 or plain[i - 1] in ws)]
    ends = [i + 1 for i in range(len(plain)) if plain[i] not in ws and (i + 1 == len(plain) or plain[i + 1] in ws)]
    out = []
    for wi, s in enumerate(starts):
        for k in range(maxwords):
            if wi + k < len(ends):
                out.append((s, ends[wi + k]))
    return out


def replay(case):
    if case["part"] == "updater":
        res = check_updater(case["a"], case["b"], case["dmp"])
    else:
        res, _ = check_enclose(case["plain"], case["source"], case["pos"], [tuple(s) for s in case["spans"]], case["mode"], case["dmp"])
    return [{"msg": f"{lab}: {det} :: {case}", "label": lab} for lab, det in res]


def shards(tier, seed):
    out = []
    plains = annot.strings(["a", "b", " "], 5)
    for r in range(16):
        out.append({"part": "nosource", "r": r, "n": 16, "k3": tier == "thorough"})
    for plain in PLAINS[tier]:
        for r in range(16):
            out.append({"part": "forced", "plain": plain, "r": r, "n": 16, "kmax": KMAX[tier]})
    # inserted material with non-ASCII characters (no-break space, curly quote, section mark in an attribute): one source
    # character is several bytes
    for r in range(8):
        out.append({"part": "forced", "plain": "wxyz", "r": r, "n": 8, "kmax": 2, "inserts": ["\u00a0", "\u201c", "<i \u00a7>", "</i>", "\u2003\u2003"]})
    for plain in REPEATED[tier]:
        for r in range(8):
            out.append({"part": "forced", "plain": plain, "r": r, "n": 8, "kmax": 3 if tier == "thorough" else 2, "inserts": ["\t", "<i>"]})
    for r in range(8):
        out.append({"part": "updater", "r": r, "n": 8})
    for li in range(len(LONG_PLAINS)):
        for r in range(8):
            out.append({"part": "long", "li": li, "r": r, "n": 8})
    return out


def opt_shards(tier):
    return [{"part": "forced", "plain": "wxyz", "r": r, "n": 8, "kmax": 2} for r in range(8)] + [{"part": "updater", "r": r, "n": 8} for r in range(8)]


def run_shard(sh):
    st = Stats()
    p = st.part(sh["part"])
    if sh["part"] == "updater":
        strs = annot.strings(["x", "y", "<"], 4)
        for a in strs[sh["r"] :: sh["n"]]:
            for b in strs:
                for dmp in (True, False):
                    st.evaluations += 1
                    st.traces += 1
                    st.transitions += 2 * (len(a) + 1)
                    p["evaluations"] += 1
                    key = h64([a, b, dmp])
                    st.states.add(key)
                    if a != b and a and b:
                        st.nontrivial.add(key)
                    res = check_updater(a, b, dmp)
                    st.outcomes.add(h64([r[0] for r in res]) if res else 0)
                    for lab, det in res:
                        st.violation({"part": "updater", "a": a, "b": b, "dmp": dmp}, f"{lab}: {det} :: SpanUpdater({a!r}, {b!r}, use_dmp={dmp})", label=lab)
        st.sample({"part": "updater", "a": "x<y", "b": "xy<"})
        return st

    def run(plain, source, pos, ss, modes, engines):
        key = h64([plain, source, ss])
        st.states.add(key)
        for mode in modes:
            for dmp in engines:
                st.evaluations += 1
                st.traces += 1
                st.transitions += 1
                p["evaluations"] += 1
                res, nclean = check_enclose(plain, source, pos, ss, mode, dmp)
                if nclean:
                    st.nontrivial.add(key)
                    if not st.samples and len(ss) > 1:
                        st.sample({"plain": plain, "source": source, "spans": [list(s) for s in ss]})
                st.outcomes.add(h64([nclean, [r[0] for r in res]]))
                known_class = bool(res) and not dmp and pos is not None and lab_is_alignment(res) and difflib_misaligns(plain, source)
                for lab, det in res:
                    case = {"part": sh["part"], "plain": plain, "source": source, "pos": pos, "spans": [list(s) for s in ss], "mode": mode, "dmp": dmp}
                    msg = f"{lab}: {det} :: plain={plain!r} source={source!r} spans={ss} mode={mode} engine={'dmp' if dmp else 'difflib'}"
                    if known_class:
                        st.violation(case, msg, label=f"{sh['part']}-{lab}-difflib-misaligned", fingerprint=DIFFLIB_FP)
                    else:
                        st.violation(case, msg, label=f"{sh['part']}-{lab}")

    if sh["part"] == "long":
        plain = LONG_PLAINS[sh["li"]]
        spans = word_spans(plain)
        for name, source, pos in long_sources(plain):
            # all single word-run spans + all adjacent pairs, both engines (difflib switches heuristics on at 200 characters)
            sets = [(sp,) for sp in spans]
            if not name.startswith("lines-") or name.count(",") < 2:  # three-line subsets: single spans only
                sets += [(a, b) for a in spans for b in spans if a[1] < b[0] and b[0] - a[1] <= 2]
            for ss in sets[sh["r"] :: sh["n"]]:
                run(plain, source, pos, ss, ("unchecked",), (True, False))
        return st
    if sh["part"] == "nosource":
        for plain in (annot.strings(["a", "b", " "], 5) + [p_ for p_ in annot.strings(["a", ">", " "], 4) if ">" in p_])[sh["r"] :: sh["n"]]:
            n = len(plain)
            sets = list(annot.span_sets(n, 2))
            if sh["k3"] and n <= 4:
                sets += list(itertools.product(annot.spans_of(n), repeat=3))
            for ss in sets:
                run(plain, None, None, ss, ("unchecked", "skip", "wrap"), (True,))
        return st
    plain = sh["plain"]
    sets = list(annot.span_sets(len(plain), 2))
    # inserted material must be foreign to the plain text (the statement's premise): drop inserts that share a character with it
    inserts = [x for x in (sh.get("inserts") or INSERTS) if not (set(x) & set(plain))]
    for source, pos in itertools.islice(annot.forced_sources(plain, inserts, sh["kmax"]), sh["r"], None, sh["n"]):
        for ss in sets:
            run(plain, source, pos, ss, ("unchecked",), (True, False))
    return st
