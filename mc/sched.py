"""E4 - controlled thread scheduler and preemption-bounded stateless exploration (CHESS style).

Real threading.Thread objects; exactly one is runnable at any time; hand-over by per-thread semaphores.
Scheduling points are sys.settrace 'line' events (optionally 'opcode' events) in frames whose code lives
under /repo/eyecite/. C-extension calls (regex matching, Aho-Corasick, lxml, hyperscan) are atomic steps.
"""

from __future__ import annotations

import sys
import threading

from mc.kernel import h64

import os

TRACE_DIR = os.path.realpath(os.environ.get("VERIF_REPO") or "/repo") + "/eyecite/"


class Divergence(Exception):
    pass


class Execution:
    def __init__(self, bodies, prefix, opcode_files=(), horizon=200000, visits=3):
        self.bodies = bodies
        self.prefix = list(prefix)
        self.n = len(bodies)
        self.sems = [threading.Semaphore(0) for _ in bodies]
        self.done = [False] * self.n
        self.results = [None] * self.n
        self.points = []  # (running thread, enabled list in canonical order, location)
        self.choices = []
        self.mainsem = threading.Semaphore(0)
        self.opcode_files = tuple(opcode_files)
        self.horizon = horizon
        self.error = None
        # a source line (or opcode) is a scheduling point only for its first `visits` executions per thread:
        # bounds the points contributed by long loops (stated in the evidence as part of the bound)
        self.visits = visits
        self.seen = [dict() for _ in bodies]

    def enabled(self, running):
        en = [i for i in range(self.n) if not self.done[i]]
        if running in en:
            en.remove(running)
            en.insert(0, running)
        return en

    def point(self, me, loc):
        en = self.enabled(me)
        if len(en) <= 1:
            return
        i = len(self.choices)
        if i >= self.horizon:
            raise Divergence("execution horizon exceeded (livelock?)")
        c = self.prefix[i] if i < len(self.prefix) else 0
        if c >= len(en):
            raise Divergence(f"replay choice {c} out of range at point {i}")
        self.points.append((me, tuple(en), loc))
        self.choices.append(c)
        nxt = en[c]
        if nxt != me:
            self.sems[nxt].release()
            self.sems[me].acquire()

    def tracer(self, me):
        opfiles = self.opcode_files

        def local(frame, event, arg):
            if event == "line" or event == "opcode":
                co = frame.f_code
                loc = (co.co_filename[len(TRACE_DIR) :], frame.f_lineno, frame.f_lasti if event == "opcode" else -1)
                seen = self.seen[me]
                n = seen.get(loc, 0)
                if n < self.visits:
                    seen[loc] = n + 1
                    self.point(me, loc)
            return local

        def tr(frame, event, arg):
            fn = frame.f_code.co_filename
            if not fn.startswith(TRACE_DIR):
                return None
            if opfiles and fn.endswith(opfiles):
                frame.f_trace_opcodes = True
            return local

        return tr

    def worker(self, me):
        self.sems[me].acquire()
        sys.settrace(self.tracer(me))
        try:
            self.results[me] = ("ok", self.bodies[me]())
        except Divergence as e:
            self.error = str(e)
            self.results[me] = ("harness", str(e))
        except BaseException as e:  # noqa: BLE001
            self.results[me] = ("exc", f"{type(e).__name__}: {e}"[:300])
        finally:
            sys.settrace(None)
            self.done[me] = True
            en = [i for i in range(self.n) if not self.done[i]]
            if en:
                # thread end: the next runnable thread is a (free) choice point when several remain
                nxt = en[0]
                if len(en) > 1:
                    i = len(self.choices)
                    c = self.prefix[i] if i < len(self.prefix) else 0
                    if c < len(en):
                        self.points.append((-1 - me, tuple(en), ("end", 0, -1)))
                        self.choices.append(c)
                        nxt = en[c]
                self.sems[nxt].release()
            else:
                self.mainsem.release()

    def run(self):
        ths = [threading.Thread(target=self.worker, args=(i,), daemon=True) for i in range(self.n)]
        for t in ths:
            t.start()
        self.sems[0].release()
        self.mainsem.acquire()
        for t in ths:
            t.join()
        return self

    def preemptions_before(self):
        pre = 0
        costs = []
        for i, (me, en, loc) in enumerate(self.points):
            costs.append(pre)
            if self.choices[i] != 0 and me >= 0 and en[0] == me:
                pre += 1
        return costs

    def sig(self, upto):
        return h64([(p[0], p[2]) for p in self.points[:upto]])


class Record:
    """Picklable outcome of one execution (used when executions run in forked children)."""

    def __init__(self, x):
        self.results = x.results
        self.points = x.points
        self.choices = x.choices
        self.error = x.error

    preemptions_before = Execution.preemptions_before
    sig = Execution.sig


def explore_with(run_exec, prefix, expect_sig, bound, on_exec, stats=None):
    """Like explore(), but every execution is produced by run_exec(prefix) -> Record/Execution (e.g. in a
    freshly forked child, so that lazily built state is cold for every execution)."""
    x = run_exec(prefix)
    if x.error:
        raise Divergence(x.error)
    if prefix and expect_sig is not None and x.sig(len(prefix)) != expect_sig:
        raise Divergence(f"replay of prefix {prefix} diverged from the recorded scheduling points")
    if stats is not None:
        stats["executions"] = stats.get("executions", 0) + 1
        stats["points"] = stats.get("points", 0) + len(x.points)
    on_exec(x)
    costs = x.preemptions_before()
    for i in range(len(prefix), len(x.points)):
        me, en, loc = x.points[i]
        cost = costs[i] + (1 if (me >= 0 and en[0] == me) else 0)
        if cost > bound:
            continue
        for alt in range(1, len(en)):
            explore_with(run_exec, x.choices[:i] + [alt], x.sig(i + 1), bound, on_exec, stats)


def children_of(x, bound):
    out = []
    costs = x.preemptions_before()
    for i in range(len(x.points)):
        me, en, loc = x.points[i]
        cost = costs[i] + (1 if (me >= 0 and en[0] == me) else 0)
        if cost > bound:
            continue
        for alt in range(1, len(en)):
            out.append((x.choices[:i] + [alt], x.sig(i + 1)))
    return out


def explore(make_bodies, reset, prefix, expect_sig, bound, on_exec, opcode_files=(), stats=None):
    """Stateless DFS below `prefix`. on_exec(execution) evaluates the oracle for one execution."""
    reset()
    x = Execution(make_bodies(), prefix, opcode_files).run()
    if x.error:
        raise Divergence(x.error)
    if prefix and expect_sig is not None and x.sig(len(prefix)) != expect_sig:
        raise Divergence(f"replay of prefix {prefix} diverged from the recorded scheduling points")
    if stats is not None:
        stats["executions"] = stats.get("executions", 0) + 1
        stats["points"] = stats.get("points", 0) + len(x.points)
    on_exec(x)
    costs = x.preemptions_before()
    for i in range(len(prefix), len(x.points)):
        me, en, loc = x.points[i]
        cost = costs[i] + (1 if (me >= 0 and en[0] == me) else 0)
        if cost > bound:
            continue
        for alt in range(1, len(en)):
            explore(make_bodies, reset, x.choices[:i] + [alt], x.sig(i + 1), bound, on_exec, opcode_files, stats)


def children(make_bodies, reset, bound, opcode_files=()):
    """Root execution + the list of first-level child prefixes (shards)."""
    reset()
    x = Execution(make_bodies(), [], opcode_files).run()
    if x.error:
        raise Divergence(x.error)
    out = []
    costs = x.preemptions_before()
    for i in range(len(x.points)):
        me, en, loc = x.points[i]
        cost = costs[i] + (1 if (me >= 0 and en[0] == me) else 0)
        if cost > bound:
            continue
        for alt in range(1, len(en)):
            out.append((x.choices[:i] + [alt], x.sig(i + 1)))
    return x, out
