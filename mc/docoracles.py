"""Per-citation oracles shared by the document-space checks (C02, C03, C17, C18).

Each oracle returns a list of (label, detail). They state only what properties.jsonl states.
"""

from __future__ import annotations

from datetime import date

from mc.ey import M

TEXT_FIELDS = [
    "pin_cite",
    "year",
    "plaintiff",
    "defendant",
    "antecedent_guess",
    "extra",
    "publisher",
    "month",
    "day",
    "volume",
]


def c02(text, cits):
    out = []
    n = len(text)
    for c in cits:
        k = type(c).__name__
        s, e = c.span()
        fs, fe = c.full_span()
        ps, pe = c.span_with_pincite()
        if not (0 <= fs <= s <= e <= fe <= n):
            out.append(("ineq", f"{k} {c.matched_text()!r}: full_span=({fs},{fe}) span=({s},{e}) len={n}"))
            continue
        if not text[s:e].startswith(c.matched_text()):
            out.append(("slice", f"{k}: text[{s}:{e}]={text[s:e]!r} does not start with matched text {c.matched_text()!r}"))
        if not (ps <= s and e <= pe):
            out.append(("pinspan", f"{k}: span_with_pincite=({ps},{pe}) does not contain span=({s},{e})"))
        pin = c.metadata.pin_cite
        if pin and isinstance(c, (M.ShortCaseCitation, M.SupraCitation, M.IdCitation, M.FullCaseCitation)):
            if not (0 <= ps <= pe <= n) or pin not in text[ps:pe]:
                out.append(("pintext", f"{k}: pin cite {pin!r} not in text[{ps}:{pe}]={text[max(ps,0):pe]!r}"))
    return out


def c03(text, cits):
    out = []
    prev = None
    for c in cits:
        s, e = c.span()
        if prev is not None:
            ps, pe = prev.span()
            if (s, e) == (ps, pe):
                out.append(("dup", f"two citations with span ({s},{e})"))
            elif s < ps or (s == ps and e < pe):
                out.append(("order", f"{type(c).__name__}@({s},{e}) returned after {type(prev).__name__}@({ps},{pe})"))
            elif s < pe:
                out.append(("overlap", f"{type(prev).__name__}@({ps},{pe}) overlaps {type(c).__name__}@({s},{e})"))
        prev = c
    return out


def c17(text, cits):
    out = []
    ends = {}
    for c in cits:
        fs, fe = c.full_span()
        ends[fs] = max(ends.get(fs, fe), fe)
    for c in cits:
        fs, fe = c.full_span()
        ext = text[max(fs, 0) : ends[fs]]
        fields = list(TEXT_FIELDS)
        if isinstance(c, M.FullCitation):
            fields.append("parenthetical")
        for f in fields:
            v = getattr(c.metadata, f, None)
            if isinstance(v, str) and v and v not in ext:
                out.append((f"meta-{f}", f"{type(c).__name__} {c.matched_text()!r}: {f}={v!r} not inside its extent {ext!r}"))
    return out


def next_year():
    return date.today().year + 1


def includes_year(ed, year):
    return (
        year <= date.today().year
        and (ed.start is None or ed.start.year <= year)
        and (ed.end is None or ed.end.year >= year)
    )


def c18(text, cits):
    out = []
    hi = next_year()
    starts = {}
    for c in cits:
        if isinstance(c, M.FullCaseCitation):
            starts[c.full_span()[0]] = starts.get(c.full_span()[0], 0) + 1
    for c in cits:
        if not isinstance(c, M.ResourceCitation):
            continue
        k = f"{type(c).__name__} {c.matched_text()!r}"
        my = getattr(c.metadata, "year", None)
        if c.year is not None:
            if not (1600 <= c.year <= hi):
                out.append(("year-range", f"{k}: year={c.year} outside 1600..{hi}"))
            if not (isinstance(my, str) and my[:4] == str(c.year)):
                out.append(("year-text", f"{k}: year={c.year} but textual year={my!r}"))
        cand = tuple(c.exact_editions) or tuple(c.variation_editions)
        g = c.edition_guess
        if g is not None and g not in cand:
            out.append(("guess-notin", f"{k}: guessed {g.short_name} not among candidates"))
        if len(cand) == 1 and g is None:
            out.append(("single-noguess", f"{k}: one candidate edition but no guess"))
        if len(cand) > 1 and g is not None and c.year is None:
            out.append(("guess-noyear", f"{k}: guessed {g.short_name} among {len(cand)} candidates without a year"))
        own_year = not (isinstance(c, M.FullCaseCitation) and starts.get(c.full_span()[0], 0) > 1)
        if len(cand) > 1 and g is not None and c.year is not None and own_year:
            ok = [e for e in cand if includes_year(e, c.year)]
            if ok != [g]:
                out.append(("guess-year", f"{k}: guessed {g.short_name} for own year {c.year}; candidates publishing then: {[e.short_name for e in ok]}"))
    return out


def c18_disamb(default, removed):
    exp = [c for c in default if not isinstance(c, M.ResourceCitation) or c.edition_guess]
    a = [(type(c).__name__, c.span(), c.matched_text()) for c in removed]
    b = [(type(c).__name__, c.span(), c.matched_text()) for c in exp]
    if a != b:
        return [("disamb", f"remove_ambiguous gave {a}, filter of default run is {b}")]
    return []
