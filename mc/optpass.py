"""Second interpreter mode: run a list of shards (or one replay case) of a driver under `python -O`.

The properties hold "for every text / list / call", whatever flags the interpreter was started with; a statement
executed only inside an `assert` (or under `if __debug__`) disappears under -O. The kernel runs the shards a driver
names in opt_shards(tier) in a child interpreter started with -O and merges the child's statistics and violations
(cases are tagged {"pyopt": 1} so that replays run in the same mode)."""
import json
import os
import pickle
import sys

if os.environ.get("VERIF_DEBUGLOG"):
    # second environment: an application that has switched DEBUG logging on (code inside `if logger.isEnabledFor(DEBUG)`
    # and lazily evaluated log arguments now run); the records themselves are thrown away
    import logging

    logging.basicConfig(level=logging.DEBUG, stream=open(os.devnull, "w"), force=True)
    logging.getLogger().setLevel(logging.DEBUG)

from mc import kernel


def main():
    mode = sys.argv[1]
    pid = sys.argv[2]
    assert_off = not __debug__ or bool(os.environ.get("VERIF_DEBUGLOG"))
    drv = kernel.load_driver(pid)
    if mode == "shards":
        tier, path = sys.argv[3], sys.argv[4]
        shards = json.load(open(path))
        if hasattr(drv, "setup"):
            drv.setup("replay", 0)  # light set-up: tokenizers other than the default one are built only if a shard asks for them
        st = kernel.run_shards(drv, shards, seed=0)
        st.extra["pyopt_asserts_disabled"] = int(assert_off)
        with open(path + ".out", "wb") as f:
            pickle.dump(st, f)
        return 0
    if mode == "replay":
        path = sys.argv[3]
        case = json.load(open(path))
        if hasattr(drv, "setup"):
            drv.setup("replay", 0)
        out = drv.replay(case)
        with open(path + ".out", "wb") as f:
            pickle.dump(out, f)
        return 0
    return 2


if __name__ == "__main__":
    sys.exit(main())
