"""E5 seam: a `set` subclass whose iteration order is chosen by the explorer.

Installed (a) in the module namespaces of eyecite (C15.install_seam) so that every set(...) built at run time
inside eyecite is controlled, and (b) as builtins.set while eyecite is being imported (mc.ey, only when
VERIF_SHADOW_SET=1), so that sets built at import time - class attributes, module constants - are controlled too.
"""

from __future__ import annotations

import itertools

_set = set  # the real type, captured before any shadowing

CTX = {"plan": {}, "log": [], "active": False}


def _stable_key(x):
    i = _EX_INDEX.get(id(x))
    if i is not None:
        return (0, i, "")
    return (1, 0, type(x).__name__ + repr(x))


_EX_INDEX = {}


class CSet(_set):
    """set subclass whose iteration order is decided by the explorer (default: a stable canonical order)."""

    def __iter__(self):
        items = sorted(_set.__iter__(self), key=_stable_key)
        if not CTX["active"]:
            return iter(items)
        j = len(CTX["log"])
        CTX["log"].append(len(items))
        spec = CTX["plan"].get(j)
        if spec is not None and len(items) > 1:
            items = apply_order(items, spec)
        return iter(items)


def apply_order(items, spec):
    kind = spec[0]
    n = len(items)
    if kind == "perm":
        if len(spec[1]) != n:
            return items
        return [items[i] for i in spec[1]]
    if kind == "rev":
        return items[::-1]
    if kind == "front":
        i = spec[1] % n
        return [items[i]] + items[:i] + items[i + 1 :]
    if kind == "back":
        i = spec[1] % n
        return items[:i] + items[i + 1 :] + [items[i]]
    return items


def order_menu(n):
    if n <= 1:
        return []
    if n <= 5:
        return [("perm", list(p)) for p in itertools.permutations(range(n))][1:]
    return [("rev",)] + [("front", i) for i in range(1, n)] + [("back", i) for i in range(0, n - 1)]


