"""The example citations shipped with reporters-db (case reporters, laws, journals): citation formats that do not
have the plain 'volume reporter page' shape (no volume, year inside the citation, paragraph numbers, ...)."""
from __future__ import annotations

import re
from datetime import date


def all_examples():
    from reporters_db import JOURNALS, LAWS, REPORTERS

    out = []
    for kind, db in (("reporter", REPORTERS), ("law", LAWS), ("journal", JOURNALS)):
        for key in sorted(db):
            for src in db[key]:
                for ex in src.get("examples", []):
                    out.append((kind, key, ex))
    return out


def short_form(ex):
    """The example with 'at' before its final number ('Gilp. 12' -> 'Gilp. at 12'); None when it does not end in a number."""
    m = re.search(r"(\s)(\d+)$", ex)
    if not m:
        return None
    return ex[: m.start()] + " at " + m.group(2)


YEAR_RE = re.compile(r"(?<![\d])(1[6-9]|20)\d\d(?![\d])")


def with_years(ex):
    """The example with its first four-digit year replaced by boundary years (only for examples that contain a year)."""
    m = YEAR_RE.search(ex)
    if not m:
        return []
    now = date.today().year
    ys = [1000, 1599, 1600, now, now + 1, now + 2, 2090, 9999]
    return [ex[: m.start()] + "%04d" % y + ex[m.end() :] for y in ys]
