"""setup_cmd: nothing needs building (pure Python); verify the environment offline."""
import sys

from mc import ey  # imports eyecite from /repo

import ahocorasick  # noqa: F401
import hyperscan  # noqa: F401
import lxml  # noqa: F401

print("ok: eyecite from", ey.eyecite.__file__, "extractors:", len(ey.T.EXTRACTORS), "python", sys.version.split()[0])
