"""Explorer kernel: shard pool, statistics, verdicts, replay artefacts, evidence.

Every property driver (mc/props/cNN.py) exposes

    ID, TITLE, RULE, ASSUMPTIONS, TECHNIQUE
    setup(tier, seed)            -> None     (parent, before fork: import eyecite, build tables)
    shards(tier, seed)           -> list of picklable shard descriptors
    run_shard(shard)             -> Stats    (worker: enumerates ALL cases of the shard)
    replay(case)                 -> list of violation dicts for that single case (no exploration)
    bounds(tier)                 -> dict     (what was enumerated; goes to the evidence)

A *case* is a JSON-serialisable description of one execution (text, event list, schedule, ...).
Nothing here samples: a shard is a prefix of an enumeration tree and run_shard walks all of it.
"""

from __future__ import annotations

import hashlib
import json
import multiprocessing as mp
import os
import subprocess
import sys
import time
import traceback
from pathlib import Path

VERIF = Path(__file__).resolve().parent.parent
# redirected only by the seeded-change tooling (tools/try_seed.sh), never by registered commands
EVIDENCE_DIR = Path(os.environ.get("VERIF_EVIDENCE_DIR") or VERIF / "evidence")
REPLAY_DIR = Path(os.environ.get("VERIF_REPLAY_DIR") or VERIF / "replays")
KNOWN_FINDINGS = VERIF / "known_findings.json"
NPROC = int(os.environ.get("VERIF_JOBS", "0")) or min(16, os.cpu_count() or 1)


def h64(obj) -> int:
    """Stable 64-bit hash of a JSON-able / str object (independent of PYTHONHASHSEED)."""
    if not isinstance(obj, (str, bytes)):
        obj = json.dumps(obj, sort_keys=True, default=repr, ensure_ascii=False)
    if isinstance(obj, str):
        obj = obj.encode("utf-8", "surrogatepass")
    return int.from_bytes(hashlib.blake2b(obj, digest_size=8).digest(), "big")


class Stats:
    """Mergeable exploration statistics for one shard / one run."""

    MAX_VIOL = 40  # violations kept per shard (the count is exact, the list is capped)

    def __init__(self):
        self.evaluations = 0  # executions of real eyecite code paths (cases checked)
        self.transitions = 0  # enumeration steps (tree edges / events applied)
        self.states = set()  # 64-bit hashes of canonical states
        self.nontrivial = set()  # hashes of distinct non-trivial cases
        self.outcomes = set()  # hashes/labels of distinct observed outcomes
        self.traces = 0  # executions validated against the implementation
        self.violations = []  # dicts: {case, msg, fingerprint}
        self.n_violations = 0
        self.samples = []
        self.parts = {}  # part name -> dict of counters
        self.caps_hit = []
        self.extra = {}  # free-form, merged by update / sum for ints
        self.label_counts = {}
        self.fp_counts = {}  # explicit fingerprint (a class of failing inputs / a call site) -> exact count

    def part(self, name):
        return self.parts.setdefault(name, {"evaluations": 0})

    def violation(self, case, msg, fingerprint=None, label=None, soft=False):
        """label groups violations for display; fingerprint identifies the specific failing
        input / call site (known-findings are matched on it, never on the property alone)."""
        self.n_violations += 1
        label = label or msg.split(":")[0][:60]
        self.label_counts[label] = self.label_counts.get(label, 0) + 1
        if fingerprint:
            self.fp_counts[fingerprint] = self.fp_counts.get(fingerprint, 0) + 1
        n_same = sum(1 for v in self.violations if v["label"] == label)
        if len(self.violations) < self.MAX_VIOL and n_same < 6:
            self.violations.append(
                {
                    "case": case,
                    "msg": msg,
                    "label": label,
                    "fingerprint": fingerprint or f"{label}|{h64(case):016x}",
                    "soft": soft,
                }
            )

    def sample(self, s, cap=4):
        if len(self.samples) < cap:
            self.samples.append(s)

    def merge(self, o: "Stats"):
        self.evaluations += o.evaluations
        self.transitions += o.transitions
        self.states |= o.states
        self.nontrivial |= o.nontrivial
        self.outcomes |= o.outcomes
        self.traces += o.traces
        self.n_violations += o.n_violations
        for v in o.violations:
            n_same = sum(1 for x in self.violations if x["label"] == v["label"])
            if n_same < 6 and len(self.violations) < 600:
                self.violations.append(v)
        for k, n in o.label_counts.items():
            self.label_counts[k] = self.label_counts.get(k, 0) + n
        for k, n in o.fp_counts.items():
            self.fp_counts[k] = self.fp_counts.get(k, 0) + n
        for s in o.samples:
            if len(self.samples) < 12:
                self.samples.append(s)
        for k, d in o.parts.items():
            t = self.parts.setdefault(k, {})
            for kk, vv in d.items():
                if isinstance(vv, (int, float)):
                    t[kk] = t.get(kk, 0) + vv
                elif isinstance(vv, set):
                    t[kk] = t.get(kk, set()) | vv
                else:
                    t[kk] = vv
        for c in o.caps_hit:
            if c not in self.caps_hit:
                self.caps_hit.append(c)
        for k, v in o.extra.items():
            if isinstance(v, (int, float)) and not isinstance(v, bool):
                self.extra[k] = self.extra.get(k, 0) + v
            elif isinstance(v, set):
                self.extra[k] = self.extra.get(k, set()) | v
            elif isinstance(v, list):
                cur = self.extra.setdefault(k, [])
                for x in v:
                    if x not in cur and len(cur) < 50:
                        cur.append(x)
            else:
                self.extra[k] = v


# ---------------------------------------------------------------------------------------------
# worker pool (fork after the parent has imported eyecite and built its tables)

_DRIVER = None
_CURRENT_SHARD = None


def _worker(shard):
    global _CURRENT_SHARD
    _CURRENT_SHARD = shard
    t0 = time.time()
    try:
        st = _DRIVER.run_shard(shard)
        for v in st.violations:
            v.setdefault("shard", shard)
    except BaseException:  # harness error, reported as such (never as a property verdict)
        st = Stats()
        st.extra["harness_errors"] = [
            f"shard {shard!r}: " + traceback.format_exc()[-3000:]
        ]
    st.extra["cpu_s"] = time.time() - t0
    return st


def run_shards(driver, shards, seed=0, jobs=None):
    """Run every shard (in parallel, order rotated by seed) and merge the statistics."""
    global _DRIVER
    _DRIVER = driver
    total = Stats()
    if not shards:
        return total
    k = seed % len(shards)
    shards = shards[k:] + shards[:k]
    jobs = jobs or NPROC
    if jobs <= 1 or len(shards) == 1:
        for s in shards:
            total.merge(_worker(s))
        return total
    ctx = mp.get_context("fork")
    # one fresh child per shard: every shard starts from the parent's state, so that a violation which
    # depends on the executions before it inside its shard can be reproduced by re-running that shard
    with ctx.Pool(min(jobs, len(shards)), maxtasksperchild=1) as pool:
        for st in pool.imap_unordered(_worker, shards, chunksize=1):
            total.merge(st)
    return total


# ---------------------------------------------------------------------------------------------
# known findings


def load_known():
    if not KNOWN_FINDINGS.exists():
        return []
    data = json.loads(KNOWN_FINDINGS.read_text())
    return data.get("known", [])


def match_known(prop_id, v, known):
    for k in known:
        if k.get("property") != prop_id:
            continue
        fp = k.get("fingerprint")
        if fp and fp == v.get("fingerprint"):
            return k
    return None


# ---------------------------------------------------------------------------------------------
# replay artefacts

_UNITTEST_TMPL = '''"""Replay of one violating execution of property {pid} (no explorer involved).
Run:  /venv/bin/python {name}.py     (fails while the violation is present)"""
import json, sys, unittest
sys.path.insert(0, {verif!r})
from mc import kernel

CASE = json.loads({case!r})
SHARD = json.loads({shard!r})  # not None: the case fails only after the executions preceding it in this shard


class Replay(unittest.TestCase):
    def test_replay(self):
        violations = kernel.replay_case({pid!r}, CASE, SHARD)
        self.assertEqual(violations, [], "\\n".join(v["msg"] for v in violations))


if __name__ == "__main__":
    unittest.main()
'''


def write_replay(prop_id, v):
    REPLAY_DIR.mkdir(parents=True, exist_ok=True)
    blob = json.dumps(v["case"], sort_keys=True, ensure_ascii=True, default=repr)
    name = f"{prop_id}-{h64(blob):016x}"
    path = REPLAY_DIR / f"{name}.json"
    path.write_text(
        json.dumps(
            {
                "property": prop_id,
                "case": v["case"],
                "msg": v["msg"],
                "fingerprint": v.get("fingerprint", ""),
                "shard": v.get("shard") if v.get("history_dependent") else None,
            },
            indent=1,
            ensure_ascii=True,
            default=repr,
        )
    )
    (REPLAY_DIR / f"{name}.py").write_text(
        _UNITTEST_TMPL.format(
            pid=prop_id,
            name=name,
            verif=str(VERIF),
            case=blob,
            shard=json.dumps(v.get("shard") if v.get("history_dependent") else None, default=repr),
        )
    )
    return path


def isolated_replay(drv, case):
    """Re-execute one case in a freshly forked child, so that both confirmation runs start from the same
    process state even when the code under test keeps state between calls."""
    import pickle

    if isinstance(case, dict) and case.get("pyopt"):
        return replay_opt(drv.ID, case)
    r, w = os.pipe()
    pid = os.fork()
    if pid == 0:
        try:
            os.close(r)
            try:
                out = ("ok", drv.replay(case))
            except BaseException as e:  # noqa: BLE001
                out = ("exc", f"{type(e).__name__}: {e}")
            with os.fdopen(w, "wb") as f:
                pickle.dump(out, f)
        finally:
            os._exit(0)
    os.close(w)
    with os.fdopen(r, "rb") as f:
        data = f.read()
    os.waitpid(pid, 0)
    if not data:
        raise RuntimeError("replay child died")
    status, out = pickle.loads(data)
    if status != "ok":
        raise RuntimeError(f"replay raised {out}")
    return out


def shard_replay(drv, shard, case):
    """Re-run a whole shard in a forked child and return its violations for `case` (history-dependent
    failures: the case only fails after the executions that precede it in its shard)."""
    import pickle

    if isinstance(case, dict) and case.get("pyopt"):
        st = run_opt_pass(drv.ID, "quick", [shard], mode="O" if case.get("pyopt") == 1 else "debuglog")
        key = json.dumps(case, sort_keys=True, default=repr)
        return [v for v in st.violations if json.dumps(v["case"], sort_keys=True, default=repr) == key]

    r, w = os.pipe()
    pid = os.fork()
    if pid == 0:
        try:
            os.close(r)
            try:
                st = drv.run_shard(shard)
                key = json.dumps(case, sort_keys=True, default=repr)
                out = ("ok", [v for v in st.violations if json.dumps(v["case"], sort_keys=True, default=repr) == key])
            except BaseException as e:  # noqa: BLE001
                out = ("exc", f"{type(e).__name__}: {e}")
            with os.fdopen(w, "wb") as f:
                pickle.dump(out, f)
        finally:
            os._exit(0)
    os.close(w)
    with os.fdopen(r, "rb") as f:
        data = f.read()
    os.waitpid(pid, 0)
    if not data:
        return []
    status, out = pickle.loads(data)
    return out if status == "ok" else []


def _work_file(prefix, suffix):
    import tempfile

    d = VERIF / ".work"
    d.mkdir(exist_ok=True)
    fd, path = tempfile.mkstemp(prefix=prefix, suffix=suffix, dir=str(d))
    os.close(fd)
    return path


def run_opt_pass(prop_id, tier, shards, mode="O"):
    """Run `shards` of the driver in a child interpreter started with -O (assert statements and `if __debug__` blocks
    removed) and return its statistics; every violation's case is tagged so that it is replayed in the same mode."""
    import pickle

    st = Stats()
    if not shards:
        return st
    path = _work_file("opt-", ".json")
    try:
        Path(path).write_text(json.dumps(shards))
        r = subprocess.run(_env_cmd(mode) + ["-m", "mc.optpass", "shards", prop_id, tier, path], cwd=str(VERIF), capture_output=True, text=True, env=_env_env(mode))
        if r.returncode != 0 or not os.path.exists(path + ".out"):
            st.extra["harness_errors"] = [f"environment pass '{mode}' failed: {r.stderr[-1500:]}"]
            return st
        with open(path + ".out", "rb") as f:
            st = pickle.load(f)
    finally:
        for q in (path, path + ".out"):
            if os.path.exists(q):
                os.unlink(q)
    tag = "O" if mode == "O" else "D"
    note = "[python -O] " if mode == "O" else "[DEBUG logging on] "
    for v in st.violations:
        v["case"] = dict(v["case"], pyopt=1 if mode == "O" else 2)
        v["msg"] = note + v["msg"]
        v["label"] = f"{tag}-" + v["label"]
        v["fingerprint"] = f"{tag}-" + v["fingerprint"]
    st.label_counts = {f"{tag}-" + k: n for k, n in st.label_counts.items()}
    st.fp_counts = {f"{tag}-" + k: n for k, n in st.fp_counts.items()}
    parts = {}
    for k, d in st.parts.items():
        parts[("pyopt:" if mode == "O" else "debuglog:") + k] = d
    if mode != "O":
        st.extra["debuglog_enabled"] = st.extra.pop("pyopt_asserts_disabled", 0) * 0 + 1
    st.parts = parts
    st.extra.pop("cpu_s", None)
    return st


def _env_cmd(mode):
    return [sys.executable, "-O"] if mode == "O" else [sys.executable]


def _env_env(mode):
    env = dict(os.environ)
    if mode != "O":
        env["VERIF_DEBUGLOG"] = "1"  # mc.optpass switches DEBUG logging on for the root logger before eyecite is imported
    return env


def replay_opt(prop_id, case):
    import pickle

    mode = "O" if case.get("pyopt") == 1 else "debuglog"
    path = _work_file("optr-", ".json")
    try:
        c = dict(case)
        c.pop("pyopt", None)
        Path(path).write_text(json.dumps(c))
        r = subprocess.run(_env_cmd(mode) + ["-m", "mc.optpass", "replay", prop_id, path], cwd=str(VERIF), capture_output=True, text=True, env=_env_env(mode))
        if r.returncode != 0 or not os.path.exists(path + ".out"):
            raise RuntimeError(f"-O replay failed: {r.stderr[-800:]}")
        with open(path + ".out", "rb") as f:
            out = pickle.load(f)
    finally:
        for q in (path, path + ".out"):
            if os.path.exists(q):
                os.unlink(q)
    for x in out:
        x["msg"] = ("[python -O] " if mode == "O" else "[DEBUG logging on] ") + x["msg"]
    return out


def load_driver(prop_id):
    import importlib

    return importlib.import_module(f"mc.props.{prop_id.lower()}")


def replay_case(prop_id, case, shard=None):
    if isinstance(case, dict) and case.get("pyopt"):
        if shard is not None:
            return shard_replay(load_driver(prop_id), shard, case)
        return replay_opt(prop_id, case)
    drv = load_driver(prop_id)
    if hasattr(drv, "setup"):
        drv.setup("replay", 0)
    if shard is not None:
        return shard_replay(drv, shard, case)
    return drv.replay(case)


# ---------------------------------------------------------------------------------------------
# evidence


def _jsonable(x):
    if isinstance(x, set):
        return sorted(_jsonable(i) for i in x)
    if isinstance(x, dict):
        return {str(k): _jsonable(v) for k, v in x.items()}
    if isinstance(x, (list, tuple)):
        return [_jsonable(i) for i in x]
    if isinstance(x, (str, int, float, bool)) or x is None:
        return x
    return repr(x)


def write_evidence(driver, tier, seed, st: Stats, wall, n_viol, n_known, extra_cov=None):
    EVIDENCE_DIR.mkdir(parents=True, exist_ok=True)
    parts = {}
    for k, d in st.parts.items():
        parts[k] = {
            kk: (len(vv) if isinstance(vv, set) else vv) for kk, vv in d.items()
        }
    cov = {
        "states": len(st.states),
        "transitions": st.transitions,
        "traces_validated_against_impl": st.traces,
        "evaluations": st.evaluations,
        "distinct_nontrivial": len(st.nontrivial),
        "distinct_outcomes": len(st.outcomes),
        "rule": driver.RULE,
        "samples": _jsonable(st.samples[:8]),
        "bounds": _jsonable(driver.bounds(tier)),
        "caps_hit": st.caps_hit,
        "exhaustive": not st.caps_hit,
        "parts": _jsonable(parts),
        "technique": driver.TECHNIQUE,
        "workers": NPROC,
        "cpu_s": round(st.extra.get("cpu_s", 0.0), 1),
    }
    for k, v in st.extra.items():
        if k in ("cpu_s", "harness_errors"):
            continue
        cov[k] = len(v) if isinstance(v, set) else _jsonable(v)
    if st.label_counts:
        cov["violation_labels"] = dict(sorted(st.label_counts.items()))
    if extra_cov:
        cov.update(_jsonable(extra_cov))
    ev = {
        "property_id": driver.ID,
        "tier": tier,
        "seed": seed,
        "level": "model_checking",
        "coverage": cov,
        "assumptions": list(driver.ASSUMPTIONS),
        "wall_s": round(wall, 2),
        "violations": n_viol,
        "known_findings_reported": n_known,
        "repo_head": _repo_head(),
    }
    path = EVIDENCE_DIR / f"{driver.ID}.json"
    path.write_text(json.dumps(ev, indent=1, ensure_ascii=False) + "\n")
    _validate_evidence(path)
    return path


def _repo_head():
    try:
        head = subprocess.run(
            ["git", "-C", os.environ.get("VERIF_REPO") or "/repo", "rev-parse", "--short", "HEAD"],
            capture_output=True,
            text=True,
            timeout=20,
        ).stdout.strip()
        dirty = subprocess.run(
            ["git", "-C", os.environ.get("VERIF_REPO") or "/repo", "status", "--porcelain", "--untracked-files=no"],
            capture_output=True,
            text=True,
            timeout=20,
        ).stdout.strip()
        return head + ("+dirty" if dirty else "")
    except Exception:
        return "unknown"


def _validate_evidence(path):
    """Schema validation with jsonschema from the tooling venv when present; a structural
    self-check otherwise. A failure here is a harness error."""
    ev = json.loads(Path(path).read_text())
    for k in ("property_id", "tier", "seed", "level", "coverage", "wall_s"):
        assert k in ev, f"evidence lacks {k}"
    cov = ev["coverage"]
    assert cov["states"] >= 1 and cov["transitions"] >= 1, "model_checking evidence needs states/transitions >= 1"
    assert isinstance(cov["samples"], list) and cov["samples"], "evidence needs samples"
    schema = Path("/root/.vp/EVIDENCE.schema.json")
    if schema.exists() and os.environ.get("VERIF_SCHEMA_CHECK", "1") == "1":
        code = (
            "import json,sys,jsonschema;"
            "jsonschema.validate(json.load(open(sys.argv[1])),json.load(open(sys.argv[2])))"
        )
        try:
            r = subprocess.run(
                ["python3-vt", "-c", code, str(path), str(schema)],
                capture_output=True,
                text=True,
                timeout=60,
            )
            if r.returncode != 0:
                raise AssertionError("evidence schema validation failed: " + r.stderr[-800:])
        except FileNotFoundError:
            pass


# ---------------------------------------------------------------------------------------------
# main entry


def run_check(prop_id, tier="quick", seed=0, jobs=None):
    t0 = time.time()
    drv = load_driver(prop_id)
    if hasattr(drv, "setup"):
        drv.setup(tier, seed)
    shards = drv.shards(tier, seed)
    st = run_shards(drv, shards, seed=seed, jobs=jobs)
    if hasattr(drv, "opt_shards"):
        osh = drv.opt_shards(tier)
        st.merge(run_opt_pass(prop_id, tier, osh))
        st.merge(run_opt_pass(prop_id, tier, osh, mode="debuglog"))
    if hasattr(drv, "finalize"):
        drv.finalize(st, tier, seed)
    herr = st.extra.get("harness_errors")
    if herr:
        for e in herr[:3]:
            print("HARNESS-ERROR", e[:1500], file=sys.stderr)
        if not st.violations:
            # harness errors (shard crash, model divergence, unsound abstraction) are never verdicts;
            # when the deciding oracles did find violations those are reported below instead
            print(f"HARNESS-ERROR property={prop_id}: {len(herr)} harness error(s), no verdict", flush=True)
            return 2
        print(f"NOTE property={prop_id}: {len(herr)} harness self-check(s) also failed (see stderr)", flush=True)

    known = load_known()
    n_known = 0
    reported = []
    seen_known = set()
    for v in st.violations:
        k = match_known(prop_id, v, known)
        if k is not None:
            n_known += 1
            if k["fingerprint"] not in seen_known:
                seen_known.add(k["fingerprint"])
                print(f"KNOWN-FINDING: property={prop_id} {k.get('what','')}")
            continue
        reported.append(v)

    # determinism gate: the first few violations are re-executed twice from the case alone
    confirmed = []
    unreproducible = []
    reported.sort(key=lambda v: len(json.dumps(v["case"], default=repr)))
    picked, labels = [], set()
    for v in reported:  # shortest case of each label first
        if v["label"] not in labels and len(picked) < 8:
            labels.add(v["label"])
            picked.append(v)
    for v in picked:
        r1 = isolated_replay(drv, v["case"])
        r2 = isolated_replay(drv, v["case"])
        if not r1 and not r2 and v.get("shard") is not None and not v.get("soft"):
            # not reproducible from the case alone: does it reproduce after the executions preceding it in its shard?
            r1 = shard_replay(drv, v["shard"], v["case"])
            r2 = shard_replay(drv, v["shard"], v["case"])
            if r1 and r2:
                v["history_dependent"] = True
                v["msg"] = "[depends on the executions preceding it in its shard] " + v["msg"]
        m1 = sorted(x["msg"] for x in r1)
        m2 = sorted(x["msg"] for x in r2)
        if m1 != m2:
            print(
                f"HARNESS-NONDETERMINISM property={prop_id} case={json.dumps(v['case'], default=repr)[:300]}",
                flush=True,
            )
            return 2
        if not r1 and v.get("soft"):
            print(f"NOTE property={prop_id}: supplementary finding did not reproduce and is not reported: {v['msg'][:200]}", file=sys.stderr)
            continue
        if not r1:
            unreproducible.append(v)
            continue
        confirmed.append(v)
    if unreproducible and not confirmed:
        v = unreproducible[0]
        print(
            f"HARNESS-NONREPRODUCIBLE property={prop_id} msg={v['msg'][:300]} case={json.dumps(v['case'], default=repr)[:300]}",
            flush=True,
        )
        return 2
    for v in unreproducible:
        print(f"NOTE property={prop_id}: a violation did not reproduce from its case or shard and is not reported: {v['msg'][:200]}", file=sys.stderr)

    # exact counts: violations carrying an explicit fingerprint are counted per fingerprint even when the kept list is capped
    known_fps = {k.get("fingerprint") for k in known if k.get("property") == prop_id}
    n_known = max(n_known, sum(n for fp, n in st.fp_counts.items() if fp in known_fps))
    n_unlisted = st.n_violations - n_known if st.n_violations >= n_known else len(reported)
    if not reported:
        n_unlisted = 0
    wall = time.time() - t0
    write_evidence(drv, tier, seed, st, wall, n_unlisted, n_known)
    print(
        f"{prop_id} tier={tier} seed={seed}: evaluations={st.evaluations} states={len(st.states)} "
        f"transitions={st.transitions} traces={st.traces} nontrivial={len(st.nontrivial)} "
        f"outcomes={len(st.outcomes)} violations={n_unlisted} known={n_known} wall={wall:.1f}s"
        + (f" caps_hit={st.caps_hit}" if st.caps_hit else "")
    )
    if confirmed:
        seen_fp = set()
        for v in confirmed:
            fp = v.get("label") or v["msg"][:80]
            if fp in seen_fp:
                continue
            seen_fp.add(fp)
            p = write_replay(prop_id, v)
            print(f"  {v['msg'][:600]}")
            print(f"VIOLATION property={prop_id} replay={p}", flush=True)
        return 1
    return 0
