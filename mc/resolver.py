"""Shared machinery for C06/C07/C08: the resolver explored as a state machine.

Exploration 1 (E1): every sequence of length <= L over the abstract citation-kind alphabet SIGMA, run
through the real resolve_citations with the default resolvers.
Exploration 2 (E3): breadth-first search over canonical resolver states to a fix-point (unbounded
sequence length over SIGMA); canon soundness is checked with two representative histories per state.
Exploration 3: lists produced by extraction from generated documents.
"""

from __future__ import annotations

import collections
import copy
import itertools
import re

from mc.ey import M, get_citations, resolve_citations, short_exc

SNIPPETS = [
    # name, text, class, index
    ("fullA", "Foo v. Bar, 1 U.S. 10 (1990).", "FullCaseCitation", 0),
    ("fullA2", "See Foo v. Bar, 1 U. S. 10, 12 (1990) (en banc).", "FullCaseCitation", 0),
    ("fullA3", "Smith v. Jones, 1 U.S. 10 (1990).", "FullCaseCitation", 0),  # the same document as fullA under fullB's party names
    ("fullA0", "1 U.S. 10.", "FullCaseCitation", 0),  # the same document as fullA, cited bare (no party names)
    ("fullA4", "Foo v. Bar, 1 U.S. (1 Dall.) 10 (1790).", "FullCaseCitation", 0),
    ("fullA5", "Foo v. Bar, 1 U. S. 10 (1801).", "FullCaseCitation", 0),  # variation spelling with a year before the edition's recorded start  # the same document written with its nominative parenthetical (other matched text)
    ("fullB", "Smith v. Jones, 1 U.S. 50 (1991).", "FullCaseCitation", 0),
    # one written reporter string that the year maps to two different editions, and the canonical spelling of one of them
    ("fullM1", "Doe v. Poe, 3 Marsh. 45 (Ky. 1820).", "FullCaseCitation", 0),  # A.K. Marsh.
    ("fullM2", "Doe v. Poe, 3 Marsh. 45 (Ky. 1830).", "FullCaseCitation", 0),  # J.J. Marsh.: same matched text as fullM1, other document
    ("fullM3", "Doe v. Poe, 3 J.J. Marsh. 45 (Ky. 1830).", "FullCaseCitation", 0),  # the same document as fullM2
    ("fullM4", "Doe v. Poe (1820) 3 Marsh. 45; and so on", "FullCaseCitation", 0),  # the same document as fullM1, year written before the citation
    ("fullM5", "Doe v. Poe, 3 Marsh. 45 (Ky. 1821).", "FullCaseCitation", 0),  # the same document as fullM1, dated in the LAST year of A.K. Marsh.
    ("fullFoo2", "Foo v. Baz, 2 U.S. 5 (1991).", "FullCaseCitation", 0),  # shares the party name Foo with fullA
    ("supraFooVol", "See Foo, 2 supra, at 6.", "SupraCitation", 0),  # the rare volume-carrying supra form
    ("fullDoeS", "State v. Doe, 4 U.S. 33 (1990).", "FullCaseCitation", 0),
    ("fullDze", "State v. Dze, 3 U.S. 22 (1990).", "FullCaseCitation", 0),  # resolved_case_name_short set to 'Doe' below (two-step flow)
    ("refDze", "State v. Dze, 3 U.S. 22 (1990). Later, Dze at 25 held.", "ReferenceCitation", 0),
    # optional symbols: extracted only by a tree that accepts such a page at all; a page without any letter or digit is a
    # placeholder, whatever character it is written with
    ("fullDash1", "Carpenter v. United States, 585 U.S. --- (2018).", "FullCaseCitation", 0),
    ("fullDash2", "Trump v. Hawaii, 585 U.S. --- (2018).", "FullCaseCitation", 0),
    ("fullJ2", "Doe v. Jones, 2 U.S. 70 (1992).", "FullCaseCitation", 0),  # a second case with the party Jones, in another volume
    ("supraJones", "See Jones, supra, at 55.", "SupraCitation", 0),
    ("fullMac", "Mac v. Arthur, 4 U.S. 40 (1990).", "FullCaseCitation", 0),
    ("supraMacArthur", "See MacArthur, supra, at 5.", "SupraCitation", 0),  # in neither party name, only in their concatenation
    ("fullC", "Bar v. Baker, 2 F.2d 20 (1992).", "FullCaseCitation", 0),
    ("fullC3", "Kim v. Lee, 2 F.3d 20 (1995).", "FullCaseCitation", 0),  # same volume/page as fullC, sibling series
    ("fullP", "Roe v. Wade, 410 U.S. ___ (1973).", "FullCaseCitation", 0),
    ("fullQ", "Baz v. Qux, 410 U.S. ___ (1974).", "FullCaseCitation", 0),  # second placeholder case, same reporter+volume
    ("fullU", "Trump v. Hawaii, 585 U.S. _ (2018).", "FullCaseCitation", 0),  # placeholder written with one underscore
    ("law", "Mass. Gen. Laws ch. 1, § 2.", "FullLawCitation", 0),
    ("lawR1", "Minn. R. 1400.", "FullLawCitation", 0),  # two rules of one compilation: differ in one group only
    ("lawR2", "Minn. R. 7050.", "FullLawCitation", 0),
    ("jour", "1 Minn. L. Rev. 1.", "FullJournalCitation", 0),
    ("jour2", "1 Minn. L. Rev., 1.", "FullJournalCitation", 0),  # the same article, other surface form (comma)
    ("lawU1", "1 U.S.C. § 1", "FullLawCitation", 0),  # the same section written with the sign and with 'sec.'
    ("lawU2", "1 U.S.C. sec. 1", "FullLawCitation", 0),
    ("jourP", "1 Minn. L. Rev. ___.", "FullJournalCitation", 0),
    ("shortU", "See 2 F.2d at 25.", "ShortCaseCitation", 0),
    ("shortAmb", "See 1 U.S. at 12.", "ShortCaseCitation", 0),
    ("shortAmbJones", "Jones, 1 U.S. at 52.", "ShortCaseCitation", 0),
    ("shortForeign", "See 3 F.3d at 9.", "ShortCaseCitation", 0),
    ("shortP", "See 410 U.S., at 5.", "ShortCaseCitation", 0),  # matches placeholder-page cases only
    ("shortPQux", "Qux, 410 U.S. at 5.", "ShortCaseCitation", 0),
    ("supraFoo", "Foo, supra, at 11.", "SupraCitation", 0),
    ("supraBar", "Bar, supra, at 11.", "SupraCitation", 0),
    ("supraNone", "Nobody, supra, at 11.", "SupraCitation", 0),
    ("supraBros", "See Bros., supra, at 5.", "SupraCitation", 0),  # antecedent written with a final period; 'Bro' is part of 'Brown', 'Bros' is not
    ("fullBrown", "Smith v. Brown, 3 U.S. 30 (1999).", "FullCaseCitation", 0),
    ("supraRoe", "Roe, supra, at 3.", "SupraCitation", 0),
    ("refJones", "Smith v. Jones, 1 U.S. 50 (1991). Later, Jones at 55 held.", "ReferenceCitation", 0),
    ("idNoPin", "Id.", "IdCitation", 0),
    ("idValid", "Id. at 12.", "IdCitation", 0),
    ("idBefore", "Id. at 5.", "IdCitation", 0),
    ("idEdgeIn", "Id. at 160.", "IdCitation", 0),  # last page of the accepted window for first page 10
    ("idEdgeOut", "Id. at 161.", "IdCitation", 0),  # first page beyond it
    ("idFar", "Id. at 900.", "IdCitation", 0),
    ("idPara", "Id. at ¶ 5.", "IdCitation", 0),
    ("unknown", "§ 5", "UnknownCitation", 0),
]
OPTIONAL = ("fullDash1", "fullDash2")
NAMES = [s[0] for s in SNIPPETS if s[0] not in OPTIONAL]  # optional symbols are appended by build_alphabet() when they exist
CORE12 = ["fullA", "fullA0", "fullA2", "fullA3", "fullB", "fullC", "fullC3", "fullP", "fullQ", "fullU", "shortAmb", "shortAmbJones", "shortP", "shortPQux", "supraBar", "refJones", "idNoPin", "idValid", "idEdgeOut", "unknown"]
DEEP7 = ["fullB", "fullJ2", "supraJones", "fullA", "supraBar", "shortAmbJones", "idNoPin"]  # length-6 sequences: memo / resume logic between the supra and the short-form resolver
MID32 = CORE12 + ["fullA4", "fullA5", "fullM1", "fullM2", "fullM4", "fullM5", "fullFoo2", "supraFooVol", "supraFoo", "fullDze", "refDze", "fullDoeS"]
CLASS = {"fullA": "A", "fullA2": "A", "fullA0": "A", "fullA3": "A", "fullA4": "A", "fullA5": "A", "fullBrown": "Brown", "fullDash1": "D1", "fullDash2": "D2", "fullJ2": "J2", "fullM1": "MA", "fullM4": "MA", "fullM5": "MA", "fullFoo2": "Foo2", "fullDoeS": "DoeS", "fullDze": "Dze", "fullMac": "Mac", "fullM2": "MJ", "fullM3": "MJ", "jour2": "jour", "lawU1": "lawU", "lawU2": "lawU", "fullB": "B", "fullC": "C", "fullC3": "C3", "fullP": "P", "fullQ": "Q", "fullU": "U", "law": "law", "lawR1": "lawR1", "lawR2": "lawR2", "jour": "jour", "jourP": "jourP"}
PLACEHOLDER_CLASSES = ("P", "Q", "U", "D1", "D2")  # every instance is its own resource: the canonical state counts them (capped at 2)
K = {}


def build_alphabet():
    if K:
        return K
    for name, text, cls, idx in SNIPPETS:
        cs = [c for c in get_citations(text) if type(c).__name__ == cls]
        if len(cs) <= idx:
            if name in OPTIONAL:
                continue
            raise RuntimeError(f"alphabet symbol {name}: snippet {text!r} yields no {cls}")
        K[name] = cs[idx]
        if name in OPTIONAL and name not in NAMES:
            NAMES.append(name)
            CORE12.append(name)
    # sanity of the alphabet's intent (harness self-check, not a verdict)
    assert norm_reporter(K["fullA"]) == norm_reporter(K["fullA2"]) == "U.S." and norm_reporter(K["fullC3"]) == "F.3d"
    assert is_placeholder(K["fullP"]) and is_placeholder(K["fullQ"]) and is_placeholder(K["fullU"]) and is_placeholder(K["jourP"])
    assert K["shortPQux"].metadata.antecedent_guess == "Qux" and norm_reporter(K["shortP"]) == norm_reporter(K["fullP"])
    assert K["refJones"].metadata.defendant == "Jones"
    assert norm_reporter(K["fullM1"]) == "A.K. Marsh." and norm_reporter(K["fullM2"]) == norm_reporter(K["fullM3"]) == "J.J. Marsh."
    assert K["fullM1"].matched_text() == K["fullM2"].matched_text()
    K["fullDze"].metadata.resolved_case_name_short = "Doe"
    assert K["supraFooVol"].metadata.antecedent_guess == "Foo" and K["refDze"].metadata.defendant == "Dze" and K["fullM5"].year == 1821
    assert K["fullM4"].year == 1820 and K["supraMacArthur"].metadata.antecedent_guess == "MacArthur"
    return K


def instantiate(seq):
    return [copy.copy(K[n]) for n in seq]


# ------------------------------------------------------------------------------------------------
# oracles (operate on real citation objects, so they also apply to extracted lists)


def is_placeholder(c):
    """A page written as underscores only (decided from the text, not from what the code stored)."""
    page = c.groups.get("page")
    return page is None or not any(ch.isalnum() for ch in page)


_DB_NORM = {}


def db_norm(written):
    """The edition name that reporters-db itself maps a written reporter string to, when that is unambiguous (exact edition
    name, or a variation of exactly one edition); None otherwise. Computed from the database, not from eyecite's lookups."""
    if not _DB_NORM:
        from reporters_db import REPORTERS

        targets = {}
        for key, srcs in REPORTERS.items():
            for src in srcs:
                for name in src["editions"]:
                    targets.setdefault(name, set()).add(name)
                for var, name in src["variations"].items():
                    targets.setdefault(var, set()).add(name)
        for w, names in targets.items():
            _DB_NORM[w] = next(iter(names)) if len(names) == 1 else None
    return _DB_NORM.get(written)


_DB_DATED = {}


def db_norm_by_year(written, year):
    """For a spelling that the database maps to several editions: the one edition among them that was published in
    `year` (edition dates from reporters-db), if there is exactly one; None otherwise."""
    if not _DB_DATED:
        from datetime import date

        from reporters_db import REPORTERS

        for key, srcs in REPORTERS.items():
            for src in srcs:
                eds = src["editions"]
                for name, ed in eds.items():
                    _DB_DATED.setdefault(name, {})[name] = (ed.get("start"), ed.get("end"))
                for var, name in src["variations"].items():
                    _DB_DATED.setdefault(var, {})[name] = (eds[name].get("start"), eds[name].get("end"))
    cands = _DB_DATED.get(written) or {}
    ok = [n for n, (s, e) in cands.items() if (s is None or s.year <= year) and (e is None or e.year >= year)]
    return ok[0] if len(ok) == 1 and len(cands) > 1 else None


def norm_reporter(c):
    """Normalised reporter: what the database maps the written string to when that is unambiguous (so that the oracle
    does not depend on whether the code made its guess); for ambiguous strings the guessed edition's own name (not its
    reporter family); else the written string."""
    w = c.groups.get("reporter")
    n = db_norm(w)
    if n is not None:
        return n
    if getattr(c, "year", None):
        n = db_norm_by_year(w, c.year)  # ambiguous spelling: the edition the citation's own year identifies
        if n is not None:
            return n
    g = c.edition_guess
    return g.short_name if g is not None else w


def same_document(a, b):
    """Statement of C06: equal = same normalised volume, reporter and page, and not a placeholder."""
    if isinstance(a, M.FullCaseCitation) and isinstance(b, M.FullCaseCitation):
        if is_placeholder(a) or is_placeholder(b):
            return a is b
        return (a.groups.get("volume"), norm_reporter(a), a.groups.get("page")) == (
            b.groups.get("volume"),
            norm_reporter(b),
            b.groups.get("page"),
        )
    if type(a) is type(b):
        # law / journal: the same groups and the same candidate editions (restated, not eyecite's ==)
        return dict(a.groups) == dict(b.groups) and sorted(e.short_name for e in a.all_editions) == sorted(e.short_name for e in b.all_editions)
    return False


def index_view(objs, res):
    """-> (groups as lists of input indices in dict order, where: index -> group number, problems)"""
    ids = {id(o): i for i, o in enumerate(objs)}
    problems = []
    groups = []
    where = {}
    for g, (r, lst) in enumerate(res.items()):
        idx = []
        for c in lst:
            if id(c) not in ids:
                problems.append(("invented", f"object {c!r} in the output is not an input object"))
                continue
            i = ids[id(c)]
            if i in where:
                problems.append(("repeated", f"input #{i} appears more than once in the output"))
            where[i] = g
            idx.append(i)
        groups.append(idx)
    return groups, where, problems


def oracle_c06(objs, res):
    groups, where, out = index_view(objs, res)
    for idx in groups:
        if idx != sorted(idx):
            out.append(("order", f"group {idx} is not in input order"))
        if not idx or not isinstance(objs[idx[0]], M.FullCitation):
            out.append(("first-not-full", f"group {idx} does not start with a full citation"))
        for i in idx:
            if isinstance(objs[i], M.UnknownCitation):
                out.append(("unknown", f"unknown citation #{i} appears in group {idx}"))
    fulls = [i for i, o in enumerate(objs) if isinstance(o, M.FullCitation)]
    for i in fulls:
        if i not in where:
            out.append(("full-missing", f"full citation #{i} {objs[i].matched_text()!r} is under no resource"))
    for i, j in itertools.combinations(fulls, 2):
        if i in where and j in where:
            share = where[i] == where[j]
            eq = same_document(objs[i], objs[j])
            if share != eq:
                out.append(("share-iff-equal", f"full #{i} {objs[i].matched_text()!r} and #{j} {objs[j].matched_text()!r}: share a resource={share}, same document={eq}"))
    return out


_SIMPLE = re.compile(r"[A-Za-z][A-Za-z\-]*[.,]?")  # a word, possibly written with a final period or comma


def _names(full):
    md = full.metadata
    return [v for v in (getattr(md, "plaintiff", None), getattr(md, "defendant", None)) if v]


def _classes(fulls):
    """Distinct documents among full citations (list of representative lists)."""
    reps = []
    for f in fulls:
        for r in reps:
            if same_document(r[0], f):
                r.append(f)
                break
        else:
            reps.append([f])
    return reps


def allowed_targets(objs, i):
    """Reference model for C07: the set of documents (as lists of full citations) the non-full,
    non-id citation #i may be attached to, computed from PRECEDING full citations only.
    Returns None when the model is undefined for this citation (exotic antecedent)."""
    c = objs[i]
    prior = [o for o in objs[:i] if isinstance(o, M.FullCitation)]
    cases = [o for o in prior if isinstance(o, M.FullCaseCitation)]
    if isinstance(c, M.ShortCaseCitation):
        cands = [f for f in cases if norm_reporter(f) == norm_reporter(c) and f.groups.get("volume") == c.groups.get("volume")]
        cl = _classes(cands)
        if len(cl) == 1:
            return cl
        ag = c.metadata.antecedent_guess
        if not ag:
            return []
        if not _SIMPLE.fullmatch(ag):
            return None
        ag = ag.rstrip(".,")
        cl = _classes([f for f in cands if any(ag in n for n in _names(f))])
        return cl if len(cl) == 1 else []
    if isinstance(c, M.SupraCitation):
        ag = c.metadata.antecedent_guess
        if not ag:
            return []
        if not _SIMPLE.fullmatch(ag):
            return None
        ag = ag.rstrip(".,")
        cl = _classes([f for f in cases if any(ag in n for n in _names(f))])
        return cl if len(cl) == 1 else []
    if isinstance(c, M.ReferenceCitation):
        names = {getattr(c.metadata, k) for k in M.ReferenceCitation.name_fields if getattr(c.metadata, k, None)}
        if not names:
            return []

        def fnames(f):
            md = f.metadata
            return {getattr(md, k) for k in M.ReferenceCitation.name_fields if getattr(md, k, None)}

        cl = _classes([f for f in cases if fnames(f) & names])
        return cl if len(cl) == 1 else []
    return None


FAR = 500  # "implausibly far": flagged only beyond page+500 (the code's own threshold is 150)


def oracle_c07(objs, res):
    groups, where, _ = index_view(objs, res)
    out = []
    for i, c in enumerate(objs):
        if isinstance(c, M.FullCitation) or i not in where:
            continue
        g = groups[where[i]]
        head = objs[g[0]]
        k = type(c).__name__
        if isinstance(c, M.IdCitation):
            if i == 0 or where.get(i - 1) != where[i]:
                out.append(("id-not-predecessor", f"id. #{i} attached to group {g} but the citation before it is {'unresolved' if i == 0 or (i - 1) not in where else 'in group ' + str(groups[where[i - 1]])}"))
                continue
            if isinstance(head, M.FullCaseCitation) and is_placeholder(head):
                out.append(("id-placeholder", f"id. #{i} attached to a case with a placeholder page"))
            pin = c.metadata.pin_cite
            page = head.groups.get("page") if hasattr(head, "groups") else None
            if pin and isinstance(page, str) and page.isdigit():
                m = re.match(r"(?:at )?(\d+)", pin)
                if not m:
                    out.append(("id-nonnumeric", f"id. #{i} with non-numeric pin cite {pin!r} attached"))
                elif int(m[1]) < int(page):
                    out.append(("id-before", f"id. #{i} pin cite {pin!r} before first page {page} attached"))
                elif int(m[1]) > int(page) + FAR:
                    out.append(("id-far", f"id. #{i} pin cite {pin!r} implausibly far beyond first page {page} attached"))
            continue
        if isinstance(c, M.UnknownCitation):
            continue  # C06's business
        allowed = allowed_targets(objs, i)
        if allowed is None:
            continue
        if not any(any(f is head or same_document(f, head) for f in cl) for cl in allowed) or not isinstance(head, M.FullCitation):
            n = "no candidate" if not allowed else "another document"
            out.append((f"guess-{k}", f"{k} #{i} {c.matched_text()!r} attached to {head.matched_text()!r} (#{g[0]}) but the reference model allows {n}"))
    return out


def oracle_c08(objs, res, pres=None):
    """Prefix restriction for the last element + causality. pres = resolve(objs[:-1]) if known."""
    out = []
    groups, where, _ = index_view(objs, res)
    for idx in groups:
        if idx:
            for i in idx[1:]:
                if i < idx[0]:
                    out.append(("causal", f"citation #{i} grouped under a resource introduced later (#{idx[0]})"))
            if not isinstance(objs[idx[0]], M.FullCitation):
                continue
            for i in idx:
                if not isinstance(objs[i], M.FullCitation) and i < idx[0]:
                    out.append(("causal", f"non-full #{i} precedes the full citation #{idx[0]} of its resource"))
    if len(objs) >= 1:
        if pres is None:
            pres = resolve_citations(objs[:-1])
        pg, _, _ = index_view(objs[:-1], pres)
        last = len(objs) - 1
        restr = [[i for i in idx if i != last] for idx in groups]
        restr = [idx for idx in restr if idx]
        if pg != restr:
            out.append(("prefix", f"resolve(prefix)={pg} but resolve(whole) restricted to the prefix={restr}"))
        # the same objects again: every shorter prefix, then the whole list once more (state kept on the citation
        # objects or in the module between calls would make a later call differ from the first)
        if len(objs) <= 6:
            for j in range(len(objs) - 2, 0, -1):
                pj, _, _ = index_view(objs[:j], resolve_citations(objs[:j]))
                rj = [[i for i in idx if i < j] for idx in groups]
                rj = [idx for idx in rj if idx]
                if pj != rj:
                    out.append(("prefix-again", f"after resolving the whole list, resolve(prefix of length {j}) on the same objects={pj} but the whole restricted to it={rj}"))
                    break
            g2, _, _ = index_view(objs, resolve_citations(objs))
            if g2 != groups:
                out.append(("whole-again", f"resolving the same list again gives {g2}, first time {groups}"))
    return out


ORACLES = {"C06": lambda o, r: oracle_c06(o, r), "C07": lambda o, r: oracle_c07(o, r), "C08": lambda o, r: oracle_c08(o, r)}


def run_seq(seq):
    objs = instantiate(seq)
    return objs, resolve_citations(objs)


def grouping_signature(objs, res):
    groups, _, _ = index_view(objs, res)
    return tuple(tuple(g) for g in groups)


# ------------------------------------------------------------------------------------------------
# E3: canonical-state BFS


def step_outcome(hist, ev):
    """Which document class does the last event get attached to (None = unattached)?"""
    seq = list(hist) + [ev]
    objs = instantiate(seq)
    try:
        res = resolve_citations(objs)
    except Exception as e:  # noqa: BLE001
        return ("EXC", type(e).__name__)
    new = objs[-1]
    for r, lst in res.items():
        if any(c is new for c in lst):
            first = lst[0]
            i = [k for k, o in enumerate(objs) if o is first][0]
            cls = CLASS.get(seq[i], "?" + seq[i])
            return (cls,)
    return None


def canon(hist):
    fulls = collections.Counter(CLASS[n] for n in hist if n in CLASS)
    key = tuple(sorted((k, min(v, 2) if k in PLACEHOLDER_CLASSES else 1) for k, v in fulls.items()))
    last = step_outcome(hist[:-1], hist[-1]) if hist else None
    return (key, last)


def bfs(names, on_transition=None, max_states=100000, check_sound=True):
    """Fix-point BFS. Returns dict with states, transitions, depth, reps, unsound list."""
    seen = {}
    reps = collections.defaultdict(list)
    c0 = canon([])
    seen[c0] = []
    reps[c0].append([])
    frontier = collections.deque([[]])
    ntr = 0
    maxdepth = 0
    capped = False
    while frontier:
        h = frontier.popleft()
        maxdepth = max(maxdepth, len(h))
        for ev in names:
            nh = h + [ev]
            ntr += 1
            if on_transition:
                on_transition(nh)
            c = canon(nh)
            if c not in seen:
                if len(seen) >= max_states:
                    capped = True
                    continue
                seen[c] = nh
                frontier.append(nh)
            if len(reps[c]) < 2 and nh not in reps[c]:
                reps[c].append(nh)
    unsound = []
    checked = 0
    for c, rs in reps.items():
        if check_sound and len(rs) == 2:
            for ev in names:
                checked += 1
                a = step_outcome(rs[0], ev)
                b = step_outcome(rs[1], ev)
                if a != b:
                    unsound.append((c, rs, ev, a, b))
    return {
        "states": len(seen),
        "transitions": ntr,
        "depth": maxdepth,
        "two_reps": sum(1 for r in reps.values() if len(r) == 2),
        "futures_compared": checked,
        "unsound": unsound,
        "capped": capped,
        "seen": seen,
        "reps": dict(reps),
    }
