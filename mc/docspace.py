"""E1 (sequence spaces) and E2 (deviation-bounded products, edit mutations) enumerators.

All enumerations are complete within their stated bound; the order is simplest-first within a
shard, and shards are prefixes of the enumeration tree.
"""

from __future__ import annotations

import itertools

# ----------------------------------------------------------------------------------------------
# Core fragment alphabet A0 (DESIGN.md section 4). Order = simplest / most common first.
A0 = [
    "1 U.S. 1",
    " ",
    ", ",
    "Foo v. Bar, ",
    " (1999)",
    "1 U.S. at 5",
    "Id.",
    "Id. at 5",
    "Foo, supra",
    ". ",
    "; ",
    "2 F.2d 2",
    "hello",
    "See ",
    " at 7",
    ", 5-6",
    "394 U. S. 618",
    "Shapiro v. Thompson, ",
    "3 Thompson 4",
    "In re Cooke, ",
    "Roe v Wade ",
    "1 U.S. ___",
    "1 U.S. (1 Wall.) 12",
    "127 S.Ct. 1955, ",
    "Ibid.",
    "5 supra",
    "Mass. Gen. Laws ch. 1, § 2",
    "1 Minn. L. Rev. 1",
    " (2d Cir. 1999)",
    "(2100) ",
    " [1999]",
    " (quoting (x) y)",
    " (West 1999)",
    "\n",
    "(",
    ")",
    "12",
    "cert. denied, ",
    "Bar at 9",
    "§ 3",
    "—",
    "é",
    "“",
]


# Transform-sensitive fragments: text that a "harmless" normalisation would change (typographic spaces inside a citation,
# decomposed accents, ligatures, characters whose case mapping changes length, full-width digits). Offsets and token text
# must refer to the caller's text, not to a normalised copy of it.
TS = [
    "410 U.S.\u00a0113",
    "Id.\u2009at 5",
    "Pen\u0303a v. Jose\u0301, ",
    "\ufb01",
    "\u0130",
    "\uff11 U.S. \uff11",
    "\u00a7\u00a05",
    "e\u0301 ",
]
TS_CORE = A0[:16] + ["Foo v. Bar, 1 U.S. 1, 5 (1999). ", "Bar, 1 U.S. at 5. "]


def ts_documents(depth=3):
    """Every concatenation of <= depth fragments of TS_CORE + TS that contains at least one TS fragment."""
    alpha = TS_CORE + TS
    n0 = len(TS_CORE)
    for L in range(1, depth + 1):
        for idx in itertools.product(range(len(alpha)), repeat=L):
            if any(i >= n0 for i in idx):
                yield "".join(alpha[i] for i in idx)


def shards_for(alphabet, depth, prefix_len=1):
    """Shard descriptors: every prefix of length < prefix_len as a leaf-only shard plus every
    prefix of length == prefix_len as a subtree shard."""
    n = len(alphabet)
    out = []
    for L in range(0, min(prefix_len, depth + 1)):
        for p in itertools.product(range(n), repeat=L):
            out.append({"prefix": list(p), "subtree": False})
    if depth >= prefix_len:
        for p in itertools.product(range(n), repeat=prefix_len):
            out.append({"prefix": list(p), "subtree": True})
    return out


def walk(alphabet, depth, shard, sep=""):
    """Yield (indices, text) for all sequences of the shard (length <= depth)."""
    prefix = tuple(shard["prefix"])
    if not shard["subtree"]:
        yield prefix, sep.join(alphabet[i] for i in prefix)
        return
    n = len(alphabet)
    base = [alphabet[i] for i in prefix]
    for extra in range(0, depth - len(prefix) + 1):
        for tail in itertools.product(range(n), repeat=extra):
            yield prefix + tail, sep.join(base + [alphabet[i] for i in tail])


def count_sequences(n, depth):
    return sum(n**i for i in range(depth + 1))


# ----------------------------------------------------------------------------------------------
# E2: slot products with a deviation bound


def deviations(slots, bound, full=()):
    """slots: list of (name, domain) with domain[0] the default. Yields dicts name->value for
    every assignment with at most `bound` non-default slots; slots named in `full` are always
    enumerated over their whole domain and do not count as deviations."""
    names = [s[0] for s in slots]
    doms = [s[1] for s in slots]
    full_idx = [i for i, n in enumerate(names) if n in full]
    dev_idx = [i for i, n in enumerate(names) if n not in full]
    for fvals in itertools.product(*[range(len(doms[i])) for i in full_idx]):
        for nd in range(0, bound + 1):
            for which in itertools.combinations(dev_idx, nd):
                for vals in itertools.product(*[range(1, len(doms[i])) for i in which]):
                    choice = [0] * len(slots)
                    for i, v in zip(full_idx, fvals):
                        choice[i] = v
                    for i, v in zip(which, vals):
                        choice[i] = v
                    yield {names[i]: doms[i][choice[i]] for i in range(len(slots))}, nd


def edit_mutations(template, alphabet, max_edits):
    """All sequences obtained from `template` (list of fragments) by <= max_edits edits
    (insert / replace / delete one fragment). Yields lists of fragments, de-duplicated."""
    seen = set()
    frontier = [tuple(template)]
    seen.add(tuple(template))
    yield list(template), 0
    for d in range(1, max_edits + 1):
        nxt = []
        for seq in frontier:
            L = len(seq)
            cands = []
            for i in range(L):
                cands.append(seq[:i] + seq[i + 1 :])
                for a in alphabet:
                    if a != seq[i]:
                        cands.append(seq[:i] + (a,) + seq[i + 1 :])
            for i in range(L + 1):
                for a in alphabet:
                    cands.append(seq[:i] + (a,) + seq[i:])
            for c in cands:
                if c not in seen:
                    seen.add(c)
                    nxt.append(c)
                    yield list(c), d
        frontier = nxt
