"""E6 - regex-language exploration.

An extractor regex is parsed with CPython's own parser (re._parser) and translated into an
epsilon-NFA over *predicates* (single-character AST nodes evaluated by CPython's own compiler).
The full Unicode alphabet (all 0x110000 code points) is partitioned into atoms = classes of code
points that no predicate of any extractor and no filter view distinguishes; exploration uses one
representative per atom, so it covers the whole alphabet, not a sample of it.
"""

from __future__ import annotations

import collections
import re
import re._compiler as sc
import re._constants as C
import re._parser as sp
import sys

NCP = sys.maxunicode + 1
_ALL = None


def all_chars():
    global _ALL
    if _ALL is None:
        _ALL = "".join(map(chr, range(NCP)))
    return _ALL


SINGLE = (C.LITERAL, C.NOT_LITERAL, C.IN, C.ANY, C.CATEGORY)
SUPPORTED = SINGLE + (C.SUBPATTERN, C.BRANCH, C.MAX_REPEAT, C.MIN_REPEAT, C.AT)


def pred_key(node, flags):
    return (repr(node), bool(flags & re.I), bool(flags & re.S))


def pred_members(node, flags):
    """Set of code points (ints) matched by a single-character AST node, computed by compiling the
    node with CPython's own compiler and running it over every code point."""
    p = sp.SubPattern(sp.State())
    p.data = [node]
    p.state.flags = flags | re.U
    c = sc.compile(p, flags)
    return frozenset(map(ord, c.findall(all_chars())))


class NFA:
    def __init__(self):
        self.eps = collections.defaultdict(set)
        self.tr = collections.defaultdict(list)  # state -> [(pred_key, target)]
        self.n = 0
        self.nodes = {}  # pred_key -> (node, flags)
        self.start = None
        self.accept = None

    def new(self):
        self.n += 1
        return self.n - 1


def build(ast, flags, nfa, start):
    cur = start
    for node in ast:
        op, av = node
        if op in SINGLE:
            nxt = nfa.new()
            k = pred_key(node, flags)
            nfa.nodes.setdefault(k, (node, flags))
            nfa.tr[cur].append((k, nxt))
            cur = nxt
        elif op is C.SUBPATTERN:
            group, add_flags, del_flags, p = av
            cur = build(p, (flags | add_flags) & ~del_flags, nfa, cur)
        elif op is C.BRANCH:
            end = nfa.new()
            for b in av[1]:
                s = nfa.new()
                nfa.eps[cur].add(s)
                e = build(b, flags, nfa, s)
                nfa.eps[e].add(end)
            cur = end
        elif op in (C.MAX_REPEAT, C.MIN_REPEAT):
            lo, hi, p = av
            for _ in range(lo):
                cur = build(p, flags, nfa, cur)
            if hi is C.MAXREPEAT:
                s = nfa.new()
                nfa.eps[cur].add(s)
                e = build(p, flags, nfa, s)
                nfa.eps[e].add(s)
                end = nfa.new()
                nfa.eps[s].add(end)
                cur = end
            else:
                end = nfa.new()
                nfa.eps[cur].add(end)
                for _ in range(hi - lo):
                    cur = build(p, flags, nfa, cur)
                    nfa.eps[cur].add(end)
                cur = end
        elif op is C.AT:
            # '^' / '$' are epsilon: they occur only at the two ends of the extractor patterns
            # (checked by at_positions_ok), and the witness word is replayed as the whole text.
            pass
        else:
            raise NotImplementedError(f"regex construct {op} not supported by the NFA translation")
    return cur


def unsupported_ops(ast, acc=None):
    acc = set() if acc is None else acc
    for op, av in ast:
        if op not in SUPPORTED:
            acc.add(str(op))
        if op is C.SUBPATTERN:
            unsupported_ops(av[3], acc)
        elif op is C.BRANCH:
            for b in av[1]:
                unsupported_ops(b, acc)
        elif op in (C.MAX_REPEAT, C.MIN_REPEAT):
            unsupported_ops(av[2], acc)
    return acc


def nfa_of(regex, flags):
    ast = sp.parse(regex, flags)
    bad = unsupported_ops(ast)
    if bad:
        raise NotImplementedError(f"unsupported regex constructs {sorted(bad)}")
    flags = ast.state.flags  # includes inline flags
    nfa = NFA()
    nfa.start = nfa.new()
    nfa.accept = build(ast, flags, nfa, nfa.start)
    return nfa


def closure(nfa, S):
    st = list(S)
    seen = set(S)
    while st:
        s = st.pop()
        for t in nfa.eps.get(s, ()):
            if t not in seen:
                seen.add(t)
                st.append(t)
    return frozenset(seen)


def accepts(nfa, word, members):
    """Direct NFA simulation on a concrete word. members: pred_key -> frozenset of code points."""
    S = closure(nfa, {nfa.start})
    for ch in word:
        o = ord(ch)
        T = set()
        for s in S:
            for k, t in nfa.tr.get(s, ()):
                if o in members[k]:
                    T.add(t)
        if not T:
            return False
        S = closure(nfa, T)
    return nfa.accept in S


def transition_words(nfa, members):
    """For every predicate transition (u -k-> v) one shortest accepted word passing through it:
    shortest prefix reaching u + representative of k + shortest suffix from v to accept."""
    rep = {k: chr(min(members[k])) for k in nfa.nodes if members[k]}
    # forward BFS (0-1 BFS: eps edges cost 0)
    INF = float("inf")
    fwd = {nfa.start: ""}
    dq = collections.deque([nfa.start])
    while dq:
        s = dq.popleft()
        for t in nfa.eps.get(s, ()):
            if t not in fwd or len(fwd[t]) > len(fwd[s]):
                fwd[t] = fwd[s]
                dq.appendleft(t)
        for k, t in nfa.tr.get(s, ()):
            if k in rep and (t not in fwd or len(fwd[t]) > len(fwd[s]) + 1):
                fwd[t] = fwd[s] + rep[k]
                dq.append(t)
    # backward
    rev_eps = collections.defaultdict(set)
    rev_tr = collections.defaultdict(list)
    for s, ts in nfa.eps.items():
        for t in ts:
            rev_eps[t].add(s)
    for s, lst in nfa.tr.items():
        for k, t in lst:
            rev_tr[t].append((k, s))
    bwd = {nfa.accept: ""}
    dq = collections.deque([nfa.accept])
    while dq:
        s = dq.popleft()
        for t in rev_eps.get(s, ()):
            if t not in bwd or len(bwd[t]) > len(bwd[s]):
                bwd[t] = bwd[s]
                dq.appendleft(t)
        for k, t in rev_tr.get(s, ()):
            if k in rep and (t not in bwd or len(bwd[t]) > len(bwd[s]) + 1):
                bwd[t] = rep[k] + bwd[s]
                dq.append(t)
    out = []
    for u, lst in nfa.tr.items():
        for k, v in lst:
            if u in fwd and v in bwd and k in rep:
                out.append(fwd[u] + rep[k] + bwd[v])
    return out


# ---------------------------------------------------------------------------------------------
# Aho-Corasick automaton over a word set with an absorbing "seen" flag


def ac_build(words):
    goto = [{}]
    out = [False]
    fail = [0]
    for w in words:
        s = 0
        for ch in w:
            if ch not in goto[s]:
                goto.append({})
                out.append(False)
                fail.append(0)
                goto[s][ch] = len(goto) - 1
            s = goto[s][ch]
        out[s] = True
    q = collections.deque()
    for ch, s in goto[0].items():
        q.append(s)
    while q:
        r = q.popleft()
        for ch, s in goto[r].items():
            q.append(s)
            f = fail[r]
            while f and ch not in goto[f]:
                f = fail[f]
            cand = goto[f].get(ch, 0)
            fail[s] = cand if cand != s else 0
            out[s] = out[s] or out[fail[s]]

    def step(s, ch):
        while s and ch not in goto[s]:
            s = fail[s]
        return goto[s].get(ch, 0)

    return step, out


# ---------------------------------------------------------------------------------------------
# global partition of the code-point space


def refine(blocks_of, members_list):
    """blocks_of: list (size NCP) of block ids; refine by each member set (iterating over the
    smaller of the set and its complement is not needed: complements are handled by splitting on the
    set itself - a block is split into (in, out))."""
    next_id = max(blocks_of) + 1
    for mem in members_list:
        if len(mem) > NCP // 2:
            mem = frozenset(range(NCP)) - mem  # split by the complement: same partition
        moved = {}
        for x in mem:
            b = blocks_of[x]
            nb = moved.get(b)
            if nb is None:
                nb = next_id
                next_id += 1
                moved[b] = nb
            blocks_of[x] = nb
    return blocks_of
