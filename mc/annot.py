"""Shared pieces for C09/C10/C11: generators of (plain, source, span-set) and oracles."""

from __future__ import annotations

import collections
import itertools

from lxml import etree

from mc.ey import annotate_citations, short_exc


def strings(alpha, nmax):
    out = [""]
    for n in range(1, nmax + 1):
        out += ["".join(p) for p in itertools.product(alpha, repeat=n)]
    return out


def spans_of(n, allow_empty=True):
    return [(s, e) for s in range(n + 1) for e in range(s if allow_empty else s + 1, n + 1)]


def span_sets(n, kmax, allow_empty=True):
    sp = spans_of(n, allow_empty)
    for k in range(1, kmax + 1):
        yield from itertools.product(sp, repeat=k)


def sentinels(k):
    return [(f"⟦{j}", f"{j}⟧") for j in range(k)]


def strip_sentinels(out, k):
    for b, a in sentinels(k):
        out = out.replace(b, "").replace(a, "")
    return out


def annotate(plain, ss, source, mode, dmp, marks=None, annotator=None, one_shot=False):
    marks = marks or sentinels(len(ss))
    anns = [(tuple(sp), marks[j][0], marks[j][1]) for j, sp in enumerate(ss)]
    if one_shot:
        anns = iter(anns)  # the parameter is documented as an Iterable: a generator / iterator can be read only once
    if annotator is not None:
        return annotate_citations(plain, anns, source_text=source, unbalanced_tags=mode, use_dmp=dmp, annotator=annotator)
    return annotate_citations(plain, anns, source_text=source, unbalanced_tags=mode, use_dmp=dmp)


def overlap(a, b):
    return max(a[0], b[0]) < min(a[1], b[1])


def clean_annotations(ss, marks):
    """Indices (in processing order) of annotations that are non-empty and do not overlap an
    earlier one; processing order is eyecite's documented sorted(annotations)."""
    order = sorted(range(len(ss)), key=lambda j: (tuple(ss[j]), marks[j][0], marks[j][1]))
    clean = []
    for pos, j in enumerate(order):
        s, e = ss[j]
        if s >= e:
            continue
        if any(overlap(ss[order[q]], ss[j]) for q in range(pos)):
            continue
        clean.append(j)
    return order, clean


# ---- forced-alignment sources ---------------------------------------------------------------


def forced_sources(plain, inserts, kmax):
    """All sources obtained by inserting <= kmax strings from `inserts` at gaps of `plain`.
    Yields (source, pos) where pos[i] = index in source of plain[i]."""
    N = len(plain)
    seen = set()
    for k in range(0, kmax + 1):
        for gs in itertools.combinations_with_replacement(range(N + 1), k):
            for mats in itertools.product(inserts, repeat=k):
                ins = collections.defaultdict(list)
                for g, m in zip(gs, mats):
                    ins[g].append(m)
                parts, pos, L = [], [], 0
                for i in range(N + 1):
                    t = "".join(ins[i])
                    parts.append(t)
                    L += len(t)
                    if i < N:
                        pos.append(L)
                        parts.append(plain[i])
                        L += 1
                src = "".join(parts)
                if src in seen:
                    continue
                seen.add(src)
                yield src, pos


# ---- element trees ------------------------------------------------------------------------


def element_trees(N, tags, max_el):
    """Well-formed trees with <= max_el elements placed at gaps 0..N of a text of N letters.
    Each element = (tag, a, b) a<=b; two elements are nested or disjoint (sequential)."""
    yield ()
    els = [(t, a, b) for t in tags for a in range(N + 1) for b in range(a, N + 1)]
    if max_el >= 1:
        for e in els:
            yield (e,)
    if max_el >= 2:
        for e1 in els:
            for e2 in els:
                (_, a, b), (_, c, d) = e1, e2
                if (a <= c and d <= b) or c >= b:
                    yield (e1, e2)
    if max_el >= 3:
        for e1 in els:
            for e2 in els:
                (_, a, b), (_, c, d) = e1, e2
                if not ((a <= c and d <= b) or c >= b):
                    continue
                for e3 in els:
                    _, f, g = e3
                    ok2 = (c <= f and g <= d) or f >= d
                    ok1 = (a <= f and g <= b) or f >= b
                    if ok1 and ok2:
                        yield (e1, e2, e3)


def render_tree(plain, tree):
    """Serialise: at each gap close inner-first, then open outer-first; empty elements open+close."""
    N = len(plain)
    out = []
    for g in range(N + 1):
        closes = [(i, t) for i, (t, a, b) in enumerate(tree) if b == g and a != g]
        opens = [(i, t) for i, (t, a, b) in enumerate(tree) if a == g]
        for i, t in sorted(closes, reverse=True):
            out.append(f"</{t.split()[0]}>")
        stack = []
        for i, t in sorted(opens):
            a, b = tree[i][1], tree[i][2]
            if a == b:  # empty element
                # nested empty elements: open now, close after inner opens at the same gap
                out.append(f"<{t}>")
                stack.append(t.split()[0])
            else:
                # close pending empty elements unless this one is nested inside them (it cannot be: they are empty)
                while stack:
                    out.append(f"</{stack.pop()}>")
                out.append(f"<{t}>")
        while stack:
            out.append(f"</{stack.pop()}>")
        if g < N:
            out.append(plain[g])
    return "".join(out)


def wellformed(s):
    try:
        return etree.fromstring(f"<div>{s}</div>")
    except etree.XMLSyntaxError:
        return None
