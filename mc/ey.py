"""Binding to the implementation under test: eyecite imported from /repo's working tree.

Nothing is cached between runs: every check is a fresh interpreter that imports /repo/eyecite,
rebuilds the 6.8k extractors and (when needed) recompiles the Hyperscan database from them.
"""

from __future__ import annotations

import os
import sys

os.environ.setdefault("EYECITE_VERIF", "1")  # guard name recorded in MANIFEST.hooks (no hooks exist)

# /repo by default; background sweeps started with `vp run --with-repo` point this at their snapshot
REPO = os.path.realpath(os.environ.get("VERIF_REPO") or "/repo")
sys.path.insert(0, REPO)

import logging  # noqa: E402

if not os.environ.get("VERIF_DEBUGLOG"):
    logging.disable(logging.CRITICAL)  # eyecite logs "Unknown overlap case" warnings; not under test

_SHADOW = os.environ.get("VERIF_SHADOW_SET") == "1"
if _SHADOW:
    import builtins

    # everything eyecite depends on is imported first, so that only eyecite's own modules run under the shadow
    import bisect, collections, copy, dataclasses, datetime, difflib, functools, hashlib, json, logging, pathlib, string, typing  # noqa: E401,F401
    import re as _re  # noqa: F401

    import ahocorasick, courts_db, fast_diff_match_patch, lxml.etree, lxml.html, regex, reporters_db, reporters_db.utils  # noqa: E401,F401

    from mc import seam as _seam

    _real_set = builtins.set
    builtins.set = _seam.CSet
try:
    import eyecite  # noqa: E402
    import eyecite.annotate  # noqa: E402,F401
    import eyecite.clean  # noqa: E402,F401
    import eyecite.find  # noqa: E402,F401
    import eyecite.helpers  # noqa: E402,F401
    import eyecite.models  # noqa: E402,F401
    import eyecite.resolve  # noqa: E402,F401
    import eyecite.tokenizers  # noqa: E402,F401
    import eyecite.utils  # noqa: E402,F401
finally:
    if _SHADOW:
        builtins.set = _real_set

assert os.path.realpath(eyecite.__file__).startswith(REPO + "/"), eyecite.__file__

from eyecite import annotate_citations, clean_text, get_citations, resolve_citations  # noqa: E402,F401
from eyecite import models as M  # noqa: E402
from eyecite import tokenizers as T  # noqa: E402

_TOK = {}


def tokenizer(name):
    """'AC' = the shared default tokenizer, 'REF' = plain Tokenizer (all regexes),
    'HS' = HyperscanTokenizer without cache (compiled once per process tree)."""
    if name not in _TOK:
        if name == "AC":
            _TOK[name] = T.default_tokenizer
        elif name == "REF":
            _TOK[name] = T.Tokenizer()
        elif name == "HS":
            hs = T.HyperscanTokenizer(cache_dir=None)
            hs.hyperscan_db  # compile now (parent), workers inherit it through fork
            _TOK[name] = hs
        else:
            raise KeyError(name)
    return _TOK[name]


def ser_edition(e):
    return (e.short_name, e.reporter.short_name, e.reporter.source)


def ser(c, hashes=False):
    """Canonical, order-preserving serialisation of a citation (everything C15/C19 compare)."""
    md = c.metadata.__dict__ if c.metadata is not None else {}
    d = {
        "kind": type(c).__name__,
        "span": tuple(c.span()),
        "full_span": tuple(c.full_span()),
        "pin_span": tuple(c.span_with_pincite()),
        "text": c.matched_text(),
        "groups": {k: c.groups[k] for k in c.groups},  # full dict, None values included
        "metadata": {k: md[k] for k in sorted(md)},
    }
    if isinstance(c, M.ResourceCitation):
        d["exact"] = tuple(ser_edition(e) for e in c.exact_editions)
        d["variation"] = tuple(ser_edition(e) for e in c.variation_editions)
        d["guess"] = ser_edition(c.edition_guess) if c.edition_guess else None
        d["year"] = c.year
    if hashes:
        by_identity = isinstance(c, (M.IdCitation, M.UnknownCitation)) or (
            isinstance(c, M.CaseCitation) and c.groups.get("page") is None
        )
        d["hash"] = None if by_identity else hash(c)
    return d


def ser_token(t):
    if isinstance(t, str):
        return t
    d = {
        "kind": type(t).__name__,
        "data": str(t),
        "start": t.start,
        "end": t.end,
        "groups": dict(t.groups),
    }
    if isinstance(t, M.CitationToken):
        d["exact"] = tuple(ser_edition(e) for e in t.exact_editions)
        d["variation"] = tuple(ser_edition(e) for e in t.variation_editions)
        d["short"] = t.short
    return d


def short_exc(e):
    import traceback

    tb = traceback.extract_tb(e.__traceback__)
    where = ""
    for fr in reversed(tb):
        if "/eyecite/" in fr.filename:
            where = f"{os.path.basename(fr.filename)}:{fr.name}"
            break
    return f"{type(e).__name__}@{where}: {str(e)[:120]}"
