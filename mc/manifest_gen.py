"""Regenerates /verif/MANIFEST.json from the drivers that exist (python -m mc.manifest_gen)."""
import importlib
import json
from pathlib import Path

VERIF = Path(__file__).resolve().parent.parent
ALL = [f"C{n:02d}" for n in range(1, 21)]
BASELINE = (
    "cd /repo && /venv/bin/python -m pytest -ra -q -p no:cacheprovider --timeout=900 "
    "--continue-on-collection-errors"
)


def main():
    checks, na = [], []
    for pid in ALL:
        try:
            d = importlib.import_module(f"mc.props.{pid.lower()}")
        except ModuleNotFoundError:
            na.append({"property_id": pid, "reason": "check not built yet in this revision of /verif (planned: see DESIGN.md section 4)"})
            continue
        checks.append(
            {
                "property_id": pid,
                "quick_cmd": f"./check {pid} --tier quick",
                "thorough_cmd": f"./check {pid} --tier thorough",
                "evidence_file": f"/verif/evidence/{pid}.json",
                "replay_cmd_template": f"./check {pid} --replay {{path}}",
                "engine": "mc (bounded-exhaustive explorer, /verif/mc)",
                "level_claimed": {
                    "category": "model_checking",
                    "text": (
                        d.TECHNIQUE
                        + ". Exhaustive within the bounds recorded in the evidence (no sampling): every enumerated input / history / "
                        "schedule / fault executes the real eyecite code from /repo's working tree, so a clean run is a coverage "
                        "statement over that space; a violation is re-executed twice from its recorded case before it is reported and "
                        "comes with a replay file and a plain unittest."
                    ),
                    "design_ref": f"DESIGN.md section 4, {pid}",
                },
                "level_note": "; ".join(d.ASSUMPTIONS),
                "technique": d.TECHNIQUE,
            }
        )
    m = {
        "version": 1,
        "setup_cmd": "cd /verif && /venv/bin/python -m mc.selftest",
        "hooks": {
            "guard": "EYECITE_VERIF",
            "enable": "no source hooks exist: all seams are public extension points (Tokenizer subclassing, extractors=/cache_dir= arguments), sys.settrace and module-namespace shadowing; checks export EYECITE_VERIF=1 for uniformity only",
            "baseline_off_cmd": BASELINE,
            "source_commits": [],
            "add_only": True,
        },
        "engines": [
            {
                "name": "mc",
                "path": "/verif/mc",
                "serves_properties": [c["property_id"] for c in checks],
                "kind_free_text": "hand-written explicit-state / bounded-exhaustive explorer for Python: sequence spaces, deviation-bounded slot products, BFS over canonical states, preemption-bounded thread scheduler, environment seams, regex-NFA x filter product",
            }
        ],
        "checks": checks,
        "not_applicable": na,
        "notes": "All checks execute the real eyecite code imported from /repo's working tree in fresh interpreters. Known findings: /verif/known_findings.json.",
    }
    (VERIF / "MANIFEST.json").write_text(json.dumps(m, indent=1) + "\n")
    print(f"{len(checks)} checks, {len(na)} not yet claimed")


if __name__ == "__main__":
    main()
